(* C07 — inlined locals never capture or clobber caller variables (under the merge contract and as
   long as no local bears the name of an enclosing-scope variable): every name occurring in the
   inlined statements comes from an actual argument or is a fresh name given by the merge; so a
   variable visible to the caller that is not mentioned in the actual arguments is neither read nor
   written by the inlined code.  No axioms. *)
From Coq Require Import List ZArith Bool Lia.
Import ListNotations.
From PV Require Import Fort.Syntax Fort.Sem Fort.Facts Fort.Facts3 C07.Model C07.Sim C07.Proofs.
Open Scope Z_scope.

Definition actual_names (a : actual) : list name :=
  match a with
  | AVar y => [y]
  | AElem a ix => a :: flat_map enames ix
  | AExpr e => enames e
  | AArr a dims _ => a :: flat_map adim_names dims
  end.

Definition repl_names (r : repl) : list name :=
  match r with
  | RVar y => [y]
  | RElem a ix => a :: flat_map enames ix
  | RExpr e => enames e
  | RArr a dims _ => a :: flat_map adim_names dims
  | RSem a _ => [a]
  end.

(* Fortran: a formal associated with an expression is not definable *)
Definition expr_formals_readonly (c : callsite) : bool :=
  forallb (fun x => match lookup x (env_impl (cs_formals c) (cs_actuals c)) with Some (RExpr _) => false | _ => true end)
          (wnames (cs_body c)).

Lemma incl_flat_map_Forall {A B} (f : A -> list B) l (T : list B) :
  Forall (fun x => incl (f x) T) l -> incl (flat_map f l) T.
Proof.
  induction 1 as [|x l Hx _ IH]; [intros y []|]. cbn [flat_map]. apply incl_app; assumption.
Qed.

Lemma enames_shift k lbx start : incl (enames (shift k lbx start)) (enames k ++ enames start).
Proof.
  unfold shift. destruct (is_lit lbx start); cbn [enames].
  - apply incl_appl, incl_refl.
  - rewrite app_nil_r. apply incl_refl.
Qed.

Lemma enames_merge dims : forall lbs ks,
  incl (flat_map enames (merge_dims dims lbs ks)) (flat_map adim_names dims ++ flat_map enames ks).
Proof.
  induction dims as [|d ds IH]; intros lbs ks; [intros y []|].
  destruct d as [lba|lo|e]; cbn [merge_dims flat_map adim_names].
  - destruct lbs as [|lbx lbs]; [intros y []|]. destruct ks as [|k ks].
    + apply IH.
    + cbn [flat_map]. intros y Hy. apply in_app_or in Hy as [Hy|Hy].
      * apply enames_shift in Hy. cbn [enames] in Hy. rewrite app_nil_r in Hy. apply in_or_app. right. apply in_or_app. auto.
      * apply IH in Hy. apply in_app_or in Hy as [Hy|Hy]; apply in_or_app; [auto|]. right. apply in_or_app. auto.
  - destruct lbs as [|lbx lbs]; [intros y []|]. destruct ks as [|k ks].
    + intros y Hy. apply IH in Hy. apply in_app_or in Hy as [Hy|Hy]; apply in_or_app; [|auto].
      left. apply in_or_app. auto.
    + cbn [flat_map]. intros y Hy. apply in_app_or in Hy as [Hy|Hy].
      * apply enames_shift in Hy. apply in_app_or in Hy as [Hy|Hy]; apply in_or_app.
        -- right. apply in_or_app. auto.
        -- left. apply in_or_app. auto.
      * apply IH in Hy. apply in_app_or in Hy as [Hy|Hy]; apply in_or_app.
        -- left. apply in_or_app. auto.
        -- right. apply in_or_app. auto.
  - intros y Hy. apply in_app_or in Hy as [Hy|Hy]; apply in_or_app.
    + left. apply in_or_app. auto.
    + apply IH in Hy. apply in_app_or in Hy as [Hy|Hy]; [left; apply in_or_app|]; auto.
Qed.

Ltac solve_in := cbn [wnames_stmt rnames_stmt app In]; rewrite ?in_app_iff; cbn [In]; rewrite ?in_app_iff; tauto.

Section Names.
  Variable env : list (name * repl).
  Variable ren : list (name * name).
  Variable T : list name.                       (* the allowed names *)
  Hypothesis Henv : forall x r, lookup x env = Some r -> incl (repl_names r) T.
  Hypothesis Henv_impl : forall x a d, lookup x env <> Some (RSem a d).
  Hypothesis Hren : forall x, In x (map fst ren) -> In (rename ren x) T.

  Definition known (x : name) : Prop := lookup x env <> None \/ In x (map fst ren).

  Lemma subst_e_names e :
    (forall x, In x (enames e) -> known x) -> incl (enames (subst_e env ren e)) T.
  Proof.
    induction e as [z|x|x ks IH|o e IH|o l r IHl IHr|f args IH] using expr_ind'; intro Hk.
    - intros y [].
    - cbn [subst_e]. destruct (lookup x env) as [r|] eqn:E.
      + pose proof (Henv x r E) as Hr. destruct r; cbn [enames repl_names] in *; try exact Hr.
        intros y [<-|[]]. apply Hr. left. reflexivity.
      + cbn [enames]. intros y [<-|[]]. apply Hren.
        destruct (Hk x (or_introl eq_refl)) as [H|H]; [congruence|exact H].
    - assert (Hks : incl (flat_map enames (map (subst_e env ren) ks)) T).
      { rewrite flat_map_concat_map, map_map, <- flat_map_concat_map. apply incl_flat_map_Forall.
        rewrite Forall_forall in IH |- *. intros k Hin. apply IH; [exact Hin|].
        intros y Hy. apply Hk. cbn [enames]. right. apply in_flat_map. eauto. }
      cbn [subst_e]. destruct (lookup x env) as [r|] eqn:E.
      + pose proof (Henv x r E) as Hr. destruct r as [y|a ix|e0|a dims lbs|a sd]; cbn [enames repl_names] in *.
        * intros z [<-|Hz]; [apply Hr; left; reflexivity|apply Hks, Hz].
        * intros z [<-|Hz]; [apply Hr; left; reflexivity|apply Hks, Hz].
        * exact Hr.
        * intros z [<-|Hz]; [apply Hr; left; reflexivity|].
          apply enames_merge in Hz. apply in_app_or in Hz as [Hz|Hz]; [apply Hr; right; exact Hz|apply Hks, Hz].
        * exfalso. eapply Henv_impl, E.
      + cbn [enames]. intros z [<-|Hz]; [|apply Hks, Hz]. apply Hren.
        destruct (Hk x (or_introl eq_refl)) as [H|H]; [congruence|exact H].
    - cbn [subst_e enames]. apply IH. exact Hk.
    - cbn [subst_e enames]. apply incl_app; [apply IHl|apply IHr]; intros y Hy; apply Hk; cbn [enames]; apply in_or_app; auto.
    - cbn [subst_e enames]. rewrite flat_map_concat_map, map_map, <- flat_map_concat_map. apply incl_flat_map_Forall.
      rewrite Forall_forall in IH |- *. intros k Hin. apply IH; [exact Hin|].
      intros y Hy. apply Hk. cbn [enames]. apply in_flat_map. eauto.
  Qed.

  Lemma subst_es_names es :
    (forall x, In x (flat_map enames es) -> known x) -> incl (flat_map enames (map (subst_e env ren) es)) T.
  Proof.
    intro Hk. rewrite flat_map_concat_map, map_map, <- flat_map_concat_map. apply incl_flat_map_Forall.
    apply Forall_forall. intros e Hin. apply subst_e_names. intros y Hy. apply Hk, in_flat_map. eauto.
  Qed.

  Lemma subst_tgt_names x ks :
    known x -> (forall e, lookup x env <> Some (RExpr e)) -> incl (flat_map enames ks) T ->
    In (fst (subst_tgt env ren x ks)) T /\ incl (flat_map enames (snd (subst_tgt env ren x ks))) T.
  Proof.
    intros Hk Hne Hks. unfold subst_tgt. destruct (lookup x env) as [r|] eqn:E.
    - pose proof (Henv x r E) as Hr. destruct r as [y|a ix|e0|a dims lbs|a sd]; cbn [fst snd repl_names] in *.
      + split; [apply Hr; left; reflexivity|exact Hks].
      + split; [apply Hr; left; reflexivity|]. intros z Hz. apply Hr. right. exact Hz.
      + exfalso. eapply Hne. reflexivity.
      + split; [apply Hr; left; reflexivity|]. intros z Hz. apply enames_merge in Hz.
        apply in_app_or in Hz as [Hz|Hz]; [apply Hr; right; exact Hz|apply Hks, Hz].
      + exfalso. eapply Henv_impl, E.
    - cbn [fst snd]. split; [|exact Hks]. apply Hren. destruct Hk as [H|H]; [congruence|exact H].
  Qed.

  Variable formals : list name.
  Hypothesis Hkeys : forall x, mem x formals = false -> lookup x env = None.

  (* all names of [s] are known, no assignment to an expression-bound formal *)
  Definition stmt_ok (s : stmt) : Prop :=
    (forall x, In x (wnames_stmt s ++ rnames_stmt s) -> known x) /\
    (forall x e, In x (wnames_stmt s) -> lookup x env <> Some (RExpr e)).

  Lemma stmt_ok_sub (s : stmt) (l : list stmt) (inW : forall c, In c l -> incl (wnames_stmt c) (wnames_stmt s))
        (inR : forall c, In c l -> incl (rnames_stmt c) (rnames_stmt s)) :
    stmt_ok s -> forall c, In c l -> stmt_ok c.
  Proof.
    intros [H1 H2] c Hc. split.
    - intros x Hx. apply H1. apply in_app_or in Hx as [Hx|Hx]; apply in_or_app; [left; eapply inW|right; eapply inR]; eauto.
    - intros x e Hx. apply H2. eapply inW; eauto.
  Qed.

  Local Notation tr := (subst_s false env ren).

  Lemma subst_s_names s :
    okS formals s = true -> stmt_ok s -> incl (wnames_stmt (tr s)) T /\ incl (rnames_stmt (tr s)) T.
  Proof.
    induction s as [x ks e|c th el IHth IHel|x lo hi stp body IHb| | | |es|r body IHb|d body IHb] using stmt_ind';
      intros Hok [Hk Hne]; unfold subst_s in *; cbn [map_stmt wnames_stmt rnames_stmt].
    - (* assignment *)
      assert (Hks : incl (flat_map enames (map (subst_e env ren) ks)) T).
      { apply subst_es_names. intros y Hy. apply Hk. solve_in. }
      destruct (subst_tgt_names x (map (subst_e env ren) ks) (Hk x (or_introl eq_refl))
                  (fun e0 => Hne x e0 (or_introl eq_refl)) Hks) as [H1 H2].
      split; [intros y [<-|[]]; exact H1|]. apply incl_app; [|exact H2].
      apply subst_e_names. intros y Hy. apply Hk. solve_in.
    - (* if *)
      cbn [okS] in Hok. apply andb_true_iff in Hok as [Hok Hel]. apply andb_true_iff in Hok as [Hc Hth].
      rewrite forallb_forall in Hth, Hel. rewrite Forall_forall in IHth, IHel.
      assert (Sth : forall c0, In c0 th -> stmt_ok c0).
      { apply (stmt_ok_sub (SIf c th el)); [| |split; assumption]; intros c0 Hc0 y Hy; cbn [wnames_stmt rnames_stmt].
        - apply in_or_app. left. apply in_flat_map. eauto.
        - apply in_or_app. right. apply in_or_app. left. apply in_flat_map. eauto. }
      assert (Sel : forall c0, In c0 el -> stmt_ok c0).
      { apply (stmt_ok_sub (SIf c th el)); [| |split; assumption]; intros c0 Hc0 y Hy; cbn [wnames_stmt rnames_stmt].
        - apply in_or_app. right. apply in_flat_map. eauto.
        - apply in_or_app. right. apply in_or_app. right. apply in_flat_map. eauto. }
      split.
      + apply incl_app; rewrite flat_map_concat_map, map_map, <- flat_map_concat_map; apply incl_flat_map_Forall;
          apply Forall_forall; intros c0 Hc0; [apply (IHth c0 Hc0 (Hth c0 Hc0) (Sth c0 Hc0))|apply (IHel c0 Hc0 (Hel c0 Hc0) (Sel c0 Hc0))].
      + apply incl_app; [|apply incl_app].
        * apply subst_e_names. intros y Hy. apply Hk. solve_in.
        * rewrite flat_map_concat_map, map_map, <- flat_map_concat_map. apply incl_flat_map_Forall.
          apply Forall_forall. intros c0 Hc0. apply (IHth c0 Hc0 (Hth c0 Hc0) (Sth c0 Hc0)).
        * rewrite flat_map_concat_map, map_map, <- flat_map_concat_map. apply incl_flat_map_Forall.
          apply Forall_forall. intros c0 Hc0. apply (IHel c0 Hc0 (Hel c0 Hc0) (Sel c0 Hc0)).
    - (* do *)
      cbn [okS] in Hok. repeat (apply andb_true_iff in Hok as [Hok ?]). apply negb_true_iff in Hok.
      rewrite forallb_forall in H. rewrite Forall_forall in IHb.
      assert (Sb : forall c0, In c0 body -> stmt_ok c0).
      { apply (stmt_ok_sub (SDo x lo hi stp body)); [| |split; assumption]; intros c0 Hc0 y Hy; cbn [wnames_stmt rnames_stmt].
        - right. apply in_flat_map. eauto.
        - apply in_or_app. right. apply in_or_app. right. apply in_or_app. right. apply in_flat_map. eauto. }
      assert (Hx : In (subst_dovar env ren false x) T).
      { unfold subst_dovar. rewrite (Hkeys x Hok). apply Hren.
        destruct (Hk x (or_introl eq_refl)) as [Hq|Hq]; [rewrite (Hkeys x Hok) in Hq; congruence|exact Hq]. }
      assert (He : forall e0, In e0 [lo; hi; stp] -> incl (enames (subst_e env ren e0)) T).
      { intros e0 He0. apply subst_e_names. intros y Hy. apply Hk.
        destruct He0 as [<-|[<-|[<-|[]]]]; solve_in. }
      split.
      + intros y [<-|Hy]; [exact Hx|]. revert y Hy. rewrite flat_map_concat_map, map_map, <- flat_map_concat_map.
        apply incl_flat_map_Forall. apply Forall_forall. intros c0 Hc0. apply (IHb c0 Hc0 (H c0 Hc0) (Sb c0 Hc0)).
      + apply incl_app; [apply He; cbn; auto|]. apply incl_app; [apply He; cbn; auto|]. apply incl_app; [apply He; cbn; auto|].
        rewrite flat_map_concat_map, map_map, <- flat_map_concat_map.
        apply incl_flat_map_Forall. apply Forall_forall. intros c0 Hc0. apply (IHb c0 Hc0 (H c0 Hc0) (Sb c0 Hc0)).
    - split; intros y [].
    - split; intros y [].
    - split; intros y [].
    - split; [intros y []|]. apply subst_es_names. intros y Hy. apply Hk. solve_in.
    - cbn [okS] in Hok. rewrite forallb_forall in Hok. rewrite Forall_forall in IHb.
      assert (Sb : forall c0, In c0 body -> stmt_ok c0).
      { apply (stmt_ok_sub (SRegion r body)); [| |split; assumption]; intros c0 Hc0 y Hy; cbn [wnames_stmt rnames_stmt]; apply in_flat_map; eauto. }
      split; rewrite flat_map_concat_map, map_map, <- flat_map_concat_map; apply incl_flat_map_Forall; apply Forall_forall;
        intros c0 Hc0; apply (IHb c0 Hc0 (Hok c0 Hc0) (Sb c0 Hc0)).
    - cbn [okS] in Hok. rewrite forallb_forall in Hok. rewrite Forall_forall in IHb.
      assert (Sb : forall c0, In c0 body -> stmt_ok c0).
      { apply (stmt_ok_sub (SDir d body)); [| |split; assumption]; intros c0 Hc0 y Hy; cbn [wnames_stmt rnames_stmt]; apply in_flat_map; eauto. }
      split; rewrite flat_map_concat_map, map_map, <- flat_map_concat_map; apply incl_flat_map_Forall; apply Forall_forall;
        intros c0 Hc0; apply (IHb c0 Hc0 (Hok c0 Hc0) (Sb c0 Hc0)).
  Qed.

  Lemma subst_ss_names ss :
    forallb (okS formals) ss = true -> (forall s, In s ss -> stmt_ok s) ->
    incl (wnames (map tr ss)) T /\ incl (rnames (map tr ss)) T.
  Proof.
    intros Hok Hs. rewrite forallb_forall in Hok. unfold wnames, rnames.
    split; rewrite flat_map_concat_map, map_map, <- flat_map_concat_map; apply incl_flat_map_Forall; apply Forall_forall;
      intros s Hin; apply (subst_s_names s (Hok s Hin) (Hs s Hin)).
  Qed.
End Names.

(** * the environment built from the call and the renaming decided by the merge *)

Lemma env_impl_names fs acts x r :
  lookup x (env_impl fs acts) = Some r -> incl (repl_names r) (flat_map actual_names acts).
Proof.
  revert acts. induction fs as [|f fs IH]; intros acts H; [discriminate|].
  destruct acts as [|a acts]; [discriminate|]. cbn [env_impl lookup fst flat_map] in *.
  destruct (Nat.eqb x (fst f)).
  - inversion H; subst r. apply incl_appl. destruct a; cbn; apply incl_refl.
  - apply incl_appr. apply IH, H.
Qed.

Lemma env_impl_not_sem fs acts x a d : lookup x (env_impl fs acts) <> Some (RSem a d).
Proof.
  revert acts. induction fs as [|f fs IH]; intros acts H; [discriminate|].
  destruct acts as [|a0 acts]; [discriminate|]. cbn [env_impl lookup fst] in H.
  destruct (Nat.eqb x (fst f)); [destruct a0; discriminate|eapply IH, H].
Qed.

Lemma env_impl_some fs acts x :
  length fs = length acts -> In x (map fst fs) -> lookup x (env_impl fs acts) <> None.
Proof.
  revert acts. induction fs as [|f fs IH]; intros acts Hl Hin; [destruct Hin|].
  destruct acts as [|a acts]; [discriminate|]. cbn [env_impl lookup fst]. cbn [map] in Hin.
  destruct (Nat.eqb x (fst f)) eqn:E; [discriminate|]. apply IH; [cbn in Hl; lia|].
  destruct Hin as [H|H]; [subst; rewrite Nat.eqb_refl in E; discriminate|exact H].
Qed.

Lemma args_ok_length fs acts : args_ok fs acts = true -> length fs = length acts.
Proof.
  revert acts. induction fs as [|f fs IH]; intros [|a acts] H; cbn in *; try discriminate; auto.
  apply andb_true_iff in H as [_ H]. f_equal. apply IH, H.
Qed.

Lemma ren_ok_aux_spec base outer : forall locals own avoid ren,
  ren_ok_aux outer own avoid locals ren = true ->
  incl base avoid -> (forall l, In l locals -> ~ In l own -> ~ In l base) ->
  map fst ren = locals /\ forall n, In n (map snd ren) -> ~ In n base.
Proof.
  induction locals as [|l ls IH]; intros own avoid ren H Hb Hl.
  - destruct ren; [|discriminate]. split; [reflexivity|intros n []].
  - destruct ren as [|[l' n] rs]; [discriminate|]. cbn [ren_ok_aux] in H.
    apply andb_true_iff in H as [H H3]. apply andb_true_iff in H as [H1 H2]. apply Nat.eqb_eq in H1. subst l'.
    destruct (IH (n :: own) (n :: avoid) rs H3) as [I1 I2].
    + intros y Hy. right. apply Hb, Hy.
    + intros l0 Hl0 Hn. apply Hl; [right; exact Hl0|]. intro Ho. apply Hn. right. exact Ho.
    + split; [cbn [map fst]; f_equal; exact I1|]. cbn [map snd]. intros m [<-|Hm]; [|apply I2, Hm].
      destruct (mem l own) eqn:E.
      * apply negb_true_iff in H2. intro Hm. apply Hb in Hm. apply mem_in in Hm. congruence.
      * apply orb_true_iff in H2 as [H2|H2].
        -- apply Nat.eqb_eq in H2. subst n. apply Hl; [left; reflexivity|]. intro Ho. apply mem_in in Ho. congruence.
        -- apply andb_true_iff in H2 as [_ H2]. apply negb_true_iff in H2. intro Hm. apply Hb in Hm.
           apply mem_in in Hm. congruence.
Qed.

Lemma rename_in ren x : In x (map fst ren) -> In (rename ren x) (map snd ren).
Proof.
  unfold rename. induction ren as [|[a b] ren IH]; intro H; [destruct H|]. cbn [lookup map snd fst] in *.
  destruct (Nat.eqb x a) eqn:E; [left; reflexivity|]. right. apply IH.
  destruct H as [H|H]; [subst; rewrite Nat.eqb_refl in E; discriminate|exact H].
Qed.

Lemma strip_return_incl body x (f : stmt -> list name) :
  In x (flat_map f (strip_return body)) -> In x (flat_map f body).
Proof.
  unfold strip_return. destruct (rev body) as [|s r] eqn:E; [auto|]. destruct s; auto.
  intro H. assert (Hb : body = rev r ++ [SReturn]) by (rewrite <- (rev_involutive body), E; reflexivity).
  rewrite Hb, flat_map_app. apply in_or_app. auto.
Qed.

Lemma strip_return_In body s : In s (strip_return body) -> In s body.
Proof.
  unfold strip_return. destruct (rev body) as [|s0 r] eqn:E; [auto|]. destruct s0; auto.
  intro H. assert (Hb : body = rev r ++ [SReturn]) by (rewrite <- (rev_involutive body), E; reflexivity).
  rewrite Hb. apply in_or_app. auto.
Qed.

Lemma forallb_strip (p : stmt -> bool) body : forallb p body = true -> forallb p (strip_return body) = true.
Proof.
  intro H. rewrite forallb_forall in *. intros s Hs. apply H, strip_return_In, Hs.
Qed.

Theorem inline_locals_fresh_ c ren :
  accept_impl c = true -> in_fragment c = true -> ren_ok c ren = true ->
  locals_disjoint_outer c = true -> expr_formals_readonly c = true ->
  forall y, In y (cs_own c ++ cs_outer c) -> ~ In y (flat_map actual_names (cs_actuals c)) ->
  ~ In y (wnames (inline_apply c ren)) /\ ~ In y (rnames (inline_apply c ren)).
Proof.
  intros Hacc Hfrag Hren Hdis Hro y Hy Hna.
  unfold inline_apply, accept_impl in *.
  destruct (cs_body c) as [|s0 body] eqn:Eb; [split; intros []|].
  assert (Hgen : s0 <> SReturn ->
     ~ In y (wnames (map (subst_s false (env_impl (cs_formals c) (cs_actuals c)) ren) (strip_return (s0 :: body)))) /\
     ~ In y (rnames (map (subst_s false (env_impl (cs_formals c) (cs_actuals c)) ren) (strip_return (s0 :: body))))).
  { intro Hne.
    assert (Hacc' : closed c = true /\ args_ok (cs_formals c) (cs_actuals c) = true).
    { destruct s0; try congruence; repeat (apply andb_true_iff in Hacc as [Hacc ?]); auto. }
    clear Hacc. destruct Hacc' as [Hcl Hargs].
    unfold ren_ok in Hren.
    destruct (ren_ok_aux_spec (cs_own c ++ cs_outer c) _ _ _ _ _ Hren) as [Rfst Rsnd].
    { intros z Hz. apply in_app_or in Hz as [Hz|Hz]; apply in_or_app; [auto|]. right. apply in_or_app. auto. }
    { intros l Hl Hno Hin. apply in_app_or in Hin as [Hin|Hin]; [exact (Hno Hin)|].
      unfold locals_disjoint_outer in Hdis. rewrite forallb_forall in Hdis.
      apply in_map_iff in Hl as [[l0 b] [E Hl]]. cbn in E. subst l0.
      specialize (Hdis _ Hl). cbn [fst] in Hdis. apply orb_true_iff in Hdis as [D|D].
      - apply negb_true_iff in D. apply mem_in in Hin. congruence.
      - apply mem_in in D. exact (Hno D). }
    set (T := flat_map actual_names (cs_actuals c) ++ map snd ren).
    assert (HyT : ~ In y T).
    { intro H. apply in_app_or in H as [H|H]; [exact (Hna H)|]. exact (Rsnd _ H Hy). }
    unfold closed in Hcl. rewrite forallb_forall in Hcl. rewrite Eb in Hcl.
    assert (Hknown : forall x, In x (rnames (s0 :: body) ++ wnames (s0 :: body)) ->
                     known (env_impl (cs_formals c) (cs_actuals c)) ren x).
    { intros x Hx. specialize (Hcl x Hx). apply mem_in in Hcl. unfold callee_names in Hcl.
      apply in_app_or in Hcl as [Hf|Hl]; [left|right].
      - apply env_impl_some; [apply args_ok_length, Hargs|exact Hf].
      - rewrite Rfst. exact Hl. }
    destruct (subst_ss_names (env_impl (cs_formals c) (cs_actuals c)) ren T) with
        (formals := map fst (cs_formals c)) (ss := strip_return (s0 :: body)) as [HW HR].
    - intros x r E. apply incl_appl. eapply env_impl_names, E.
    - intros x a d. apply env_impl_not_sem.
    - intros x Hx. apply in_or_app. right. apply rename_in, Hx.
    - intros x Hx. apply env_impl_keys, Hx.
    - apply forallb_strip. unfold in_fragment in Hfrag. rewrite Eb in Hfrag. exact Hfrag.
    - intros s Hs. apply strip_return_In in Hs. split.
      + intros x Hx. apply Hknown. apply in_app_or in Hx as [Hx|Hx]; apply in_or_app; [right|left];
          unfold wnames, rnames; apply in_flat_map; eauto.
      + intros x e Hx E. unfold expr_formals_readonly in Hro. rewrite forallb_forall in Hro. rewrite Eb in Hro.
        assert (Hw : In x (wnames (s0 :: body))) by (unfold wnames; apply in_flat_map; eauto).
        specialize (Hro x Hw). rewrite E in Hro. discriminate.
    - split; intro H; apply HyT; [apply HW|apply HR]; exact H. }
  destruct s0; try (apply Hgen; discriminate). split; intros [].
Qed.

(* semantic reading: such a variable keeps its value *)
Corollary inline_locals_no_clobber c ren :
  accept_impl c = true -> in_fragment c = true -> ren_ok c ren = true ->
  locals_disjoint_outer c = true -> expr_formals_readonly c = true ->
  forall y, In y (cs_own c ++ cs_outer c) -> ~ In y (flat_map actual_names (cs_actuals c)) ->
  forall fuel st s' tr ctl ix, exec fuel (inline_apply c ren) st = Ok s' tr ctl -> val s' (y, ix) = val st (y, ix).
Proof.
  intros H1 H2 H3 H4 H5 y Hy Hn fuel st s' tr ctl ix He.
  destruct (inline_locals_fresh_ c ren H1 H2 H3 H4 H5 y Hy Hn) as [Hw _].
  eapply exec_unchanged_names; [exact He|exact Hw].
Qed.
