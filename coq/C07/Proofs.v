(* C07 — soundness of the modelled InlineTrans under the sufficient condition
   [actual_indices_invariant]: textual substitution of the actual arguments agrees with binding every
   formal to the location selected at the call, as long as nothing that selects those locations is
   assigned by the inlined body.  No axioms. *)
From Coq Require Import List ZArith Bool Lia.
Import ListNotations.
From PV Require Import Fort.Syntax Fort.Sem Fort.Facts Fort.Facts3 C07.Model C07.Sim.
Open Scope Z_scope.

(* same final store and control state; traces (reads of index variables) may differ *)
Definition obs_eq (o1 o2 : outcome) : Prop :=
  match o1, o2 with
  | Ok s1 _ c1, Ok s2 _ c2 => s1 = s2 /\ c1 = c2
  | Fault, Fault => True
  | OutOfFuel, OutOfFuel => True
  | _, _ => False
  end.

Lemma obs_eq_refl o : obs_eq o o.
Proof. destruct o; cbn; auto. Qed.
Lemma obs_eq_trans o1 o2 o3 : obs_eq o1 o2 -> obs_eq o2 o3 -> obs_eq o1 o3.
Proof.
  destruct o1, o2, o3; cbn; try tauto; intros [-> ->] [-> ->]; auto.
Qed.
Lemma obs_eq_sym o1 o2 : obs_eq o1 o2 -> obs_eq o2 o1.
Proof. destruct o1, o2; cbn; try tauto; intros [-> ->]; auto. Qed.
Lemma osim_obs P o1 o2 : osim P o1 o2 -> obs_eq o1 o2.
Proof. destruct o1, o2; cbn; try tauto; intros [-> [-> _]]; auto. Qed.
Lemma obs_eq_ret2norm o1 o2 : obs_eq o1 o2 -> obs_eq (ret2norm o1) (ret2norm o2).
Proof.
  destruct o1 as [s1 t1 c1| |], o2 as [s2 t2 c2| |]; cbn [obs_eq ret2norm]; try tauto;
  intros [-> ->]; destruct c2; cbn; auto.
Qed.
Lemma obs_eq_prepend t1 t2 o1 o2 : obs_eq o1 o2 -> obs_eq (prepend t1 o1) (prepend t2 o2).
Proof. destruct o1, o2; cbn; auto. Qed.

(** * small list facts *)

Lemma opt_all_some {A} (l : list (option A)) vs : opt_all l = Some vs -> l = map Some vs.
Proof.
  revert vs. induction l as [|[x|] l IH]; intros vs H; cbn [opt_all] in H.
  - inversion H. reflexivity.
  - destruct (opt_all l) as [xs|]; [|discriminate]. inversion H; subst. cbn [map]. f_equal. apply IH. reflexivity.
  - discriminate.
Qed.

Lemma map_eval_lits st vs : map (eval st) (map ELit vs) = map Some vs.
Proof. induction vs as [|v vs IH]; [reflexivity|]. cbn [map eval]. f_equal. exact IH. Qed.

Lemma eval_idx_congr st a k1 k2 :
  map (eval st) k1 = map (eval st) k2 -> eval st (EIdx a k1) = eval st (EIdx a k2).
Proof. intro H. cbn [eval]. rewrite H. reflexivity. Qed.

Lemma eval_intr_noninq s f a1 a2 vs : is_inquiry f = false -> eval_intr s f a1 vs = eval_intr s f a2 vs.
Proof. destruct f; cbn [is_inquiry]; intro H; try discriminate; reflexivity. Qed.

Lemma lookup_none_keys {A} x (l : list (name * A)) : mem x (map fst l) = false -> lookup x l = None.
Proof.
  induction l as [|[y v] l IH]; [reflexivity|]. unfold mem. cbn [map fst existsb lookup].
  intro H. apply orb_false_iff in H as [H1 H2]. rewrite H1. apply IH. exact H2.
Qed.

Lemma mem_in x l : mem x l = true <-> In x l.
Proof.
  unfold mem. rewrite existsb_exists. split.
  - intros [y [H1 H2]]. apply Nat.eqb_eq in H2. subst. exact H1.
  - intro H. exists x. split; [exact H|apply Nat.eqb_refl].
Qed.

(** * the invariant: the call-time values of everything that selects a location are kept *)

Section Core.
  Variable st0 : store.
  Variable V : list name.       (* protected names *)
  Variable W : list name.       (* names the inlined body may assign *)
  Hypothesis VW : forall x, In x V -> ~ In x W.
  Variable ren : list (name * name).

  Definition Inv (st : store) : Prop :=
    bnd st = bnd st0 /\ forall l, In (fst l) V -> val st l = val st0 l.

  Lemma Inv0 : Inv st0.
  Proof. split; auto. Qed.

  Lemma Inv_upd st l v : Inv st -> In (fst l) W -> Inv (upd st l v).
  Proof.
    intros [Hb Hv] Hl. split; [rewrite bnd_upd; exact Hb|].
    intros l' Hl'. rewrite val_upd_other; [apply Hv, Hl'|].
    intro E. subst l'. exact (VW _ Hl' Hl).
  Qed.

  Lemma eval_inv st e : Inv st -> incl (enames e) V -> eval st e = eval st0 e.
  Proof.
    intros [Hb Hv] Hi. apply eval_frame; [exact Hb|].
    intros l Hl. apply Hv, Hi. eapply ereads_names, Hl.
  Qed.

  Lemma evals_inv st es : Inv st -> incl (flat_map enames es) V -> map (eval st) es = map (eval st0) es.
  Proof.
    intros HI. induction es as [|e es IH]; intro Hi; [reflexivity|].
    cbn [flat_map] in Hi. cbn [map]. rewrite (eval_inv st e HI), IH; [reflexivity| |].
    - intros x Hx. apply Hi, in_or_app. auto.
    - intros x Hx. apply Hi, in_or_app. auto.
  Qed.

  (** replacement built by InlineTrans  vs.  location view fixed at the call *)
  Inductive rrel : repl -> repl -> Prop :=
  | rr_var y : rrel (RVar y) (RVar y)
  | rr_elem a ix vs : opt_all (map (eval st0) ix) = Some vs -> incl (flat_map enames ix) V ->
                      rrel (RElem a ix) (RElem a (map ELit vs))
  | rr_expr e v : eval st0 e = Some v -> incl (enames e) V -> rrel (RExpr e) (RExpr (ELit v))
  | rr_arr a dims lbs sd : freeze_dims st0 dims lbs = Some sd -> incl (flat_map adim_names dims) V ->
                           rrel (RArr a dims lbs) (RSem a sd).

  Definition erel (e1 e2 : list (name * repl)) : Prop :=
    forall x, match lookup x e1, lookup x e2 with
              | Some r1, Some r2 => rrel r1 r2
              | None, None => True
              | _, _ => False
              end.

  Lemma erel_bind fs acts es :
    bind_all st0 fs acts = Some es -> incl (flat_map actual_index_names acts) V ->
    erel (env_impl fs acts) es.
  Proof.
    revert acts es. induction fs as [|f fs IH]; intros acts es H Hi.
    - cbn in H. inversion H. intro x. exact I.
    - destruct acts as [|a acts].
      + cbn in H. inversion H. intro x. exact I.
      + cbn [bind_all] in H. destruct (bind_actual st0 f a) as [r|] eqn:Er; [|discriminate].
        destruct (bind_all st0 fs acts) as [e|] eqn:Ee; [|discriminate]. inversion H; subst es. clear H.
        cbn [flat_map] in Hi.
        assert (Ha : incl (actual_index_names a) V) by (intros z Hz; apply Hi, in_or_app; auto).
        assert (Hr : incl (flat_map actual_index_names acts) V) by (intros z Hz; apply Hi, in_or_app; auto).
        specialize (IH acts e Ee Hr).
        intro x. cbn [env_impl lookup fst]. destruct (Nat.eqb x (fst f)); [|apply IH].
        destruct a as [y|a0 ix|e0|a0 dims u]; cbn [bind_actual repl_impl actual_index_names] in *.
        * inversion Er. constructor.
        * destruct (opt_all (map (eval st0) ix)) as [vs|] eqn:Ev; [|discriminate]. inversion Er. constructor; assumption.
        * destruct (eval st0 e0) as [v|] eqn:Ev; [|discriminate]. inversion Er. constructor; assumption.
        * destruct (freeze_dims st0 dims (snd f)) as [sd|] eqn:Ev; [|discriminate]. inversion Er. constructor; assumption.
  Qed.

  (** index arithmetic: (k - lbx) + start  =  k + (start - lbx) *)
  Lemma eval_shift st k k' lbx start v :
    eval st start = Some v -> eval st k = eval st k' ->
    eval st (shift k lbx start) = eval st (EBin Add k' (ELit (v - lbx))).
  Proof.
    intros Hs Hk. unfold shift. destruct (is_lit lbx start) eqn:E.
    - destruct start; cbn [is_lit] in E; try discriminate. apply Z.eqb_eq in E. subst z.
      cbn [eval] in Hs. inversion Hs; subst v. cbn [eval]. rewrite Hk.
      destruct (eval st k') as [a|]; [|reflexivity]. cbn [eval_bin]. f_equal. lia.
    - cbn [eval]. rewrite Hs, Hk. destruct (eval st k') as [a|]; [|reflexivity].
      cbn [eval_bin]. f_equal. lia.
  Qed.

  Lemma merge_rel st dims : forall lbs sd k1 k2,
    Inv st -> freeze_dims st0 dims lbs = Some sd -> incl (flat_map adim_names dims) V ->
    map (eval st) k1 = map (eval st) k2 ->
    map (eval st) (merge_dims dims lbs k1) = map (eval st) (merge_sem sd k2).
  Proof.
    induction dims as [|d ds IH]; intros lbs sd k1 k2 HI Hf Hi Hk.
    - cbn in Hf. inversion Hf. reflexivity.
    - cbn [flat_map] in Hi.
      assert (Hd : incl (adim_names d) V) by (intros z Hz; apply Hi, in_or_app; auto).
      assert (Hr : incl (flat_map adim_names ds) V) by (intros z Hz; apply Hi, in_or_app; auto).
      destruct d as [lba|lo|e]; cbn [freeze_dims] in Hf.
      + destruct lbs as [|lbx lbs]; [discriminate|].
        destruct (freeze_dims st0 ds lbs) as [r|] eqn:Er; [|discriminate]. inversion Hf; subst sd. clear Hf.
        cbn [merge_dims merge_sem]. destruct k1 as [|k k1], k2 as [|k' k2]; try discriminate.
        * apply (IH lbs r [] []); auto.
        * cbn [map] in Hk. inversion Hk as [[Hk1 Hk2]]. cbn [map]. f_equal.
          -- apply eval_shift; [reflexivity|exact Hk1].
          -- apply IH; auto.
      + destruct lbs as [|lbx lbs]; [discriminate|].
        destruct (eval st0 lo) as [v|] eqn:Ev; [|discriminate].
        destruct (freeze_dims st0 ds lbs) as [r|] eqn:Er; [|discriminate]. inversion Hf; subst sd. clear Hf.
        cbn [merge_dims merge_sem]. destruct k1 as [|k k1], k2 as [|k' k2]; try discriminate.
        * apply (IH lbs r [] []); auto.
        * cbn [map] in Hk. inversion Hk as [[Hk1 Hk2]]. cbn [map]. f_equal.
          -- apply eval_shift; [|exact Hk1]. rewrite (eval_inv st lo HI Hd). exact Ev.
          -- apply IH; auto.
      + destruct (eval st0 e) as [v|] eqn:Ev; [|discriminate].
        destruct (freeze_dims st0 ds lbs) as [r|] eqn:Er; [|discriminate]. inversion Hf; subst sd. clear Hf.
        cbn [merge_dims merge_sem map]. f_equal.
        * rewrite (eval_inv st e HI Hd). exact Ev.
        * apply IH; auto.
  Qed.

  Variables ei es : list (name * repl).
  Hypothesis Hrel : erel ei es.

  Lemma subst_e_rel e st :
    inq_free_e e = true -> Inv st -> eval st (subst_e ei ren e) = eval st (subst_e es ren e).
  Proof.
    intros Hq HI. induction e as [z|x|x ks IH|o e IH|o l r IHl IHr|f args IH] using expr_ind'.
    - reflexivity.
    - cbn [subst_e]. specialize (Hrel x).
      destruct (lookup x ei) as [r1|], (lookup x es) as [r2|]; try contradiction; [|reflexivity].
      destruct Hrel as [y|a ix vs Hv Hi|e0 v Hv Hi|a dims lbs sd Hf Hi]; try reflexivity.
      + apply eval_idx_congr. rewrite map_eval_lits, (evals_inv st ix HI Hi). apply opt_all_some, Hv.
      + cbn [eval]. rewrite (eval_inv st e0 HI Hi). exact Hv.
    - cbn [inq_free_e] in Hq.
      assert (Hk : map (eval st) (map (subst_e ei ren) ks) = map (eval st) (map (subst_e es ren) ks)).
      { induction ks as [|k ks IHk]; [reflexivity|]. cbn [forallb] in Hq. apply andb_true_iff in Hq as [Hq1 Hq2].
        inversion IH; subst. cbn [map]. f_equal; auto. }
      cbn [subst_e]. specialize (Hrel x).
      destruct (lookup x ei) as [r1|], (lookup x es) as [r2|]; try contradiction.
      + destruct Hrel as [y|a ix vs Hv Hi|e0 v Hv Hi|a dims lbs sd Hf Hi]; try (apply eval_idx_congr, Hk).
        * cbn [eval]. rewrite (eval_inv st e0 HI Hi). exact Hv.
        * apply eval_idx_congr. apply merge_rel; assumption.
      + apply eval_idx_congr, Hk.
    - cbn [inq_free_e] in Hq. cbn [subst_e eval]. rewrite IH by exact Hq. reflexivity.
    - cbn [inq_free_e] in Hq. apply andb_true_iff in Hq as [Hq1 Hq2].
      cbn [subst_e eval]. rewrite IHl, IHr by assumption. reflexivity.
    - cbn [inq_free_e] in Hq. apply andb_true_iff in Hq as [Hq1 Hq2]. apply negb_true_iff in Hq1.
      assert (Hk : map (eval st) (map (subst_e ei ren) args) = map (eval st) (map (subst_e es ren) args)).
      { induction args as [|k ks IHk]; [reflexivity|]. cbn [forallb] in Hq2. apply andb_true_iff in Hq2 as [Hq3 Hq4].
        inversion IH; subst. cbn [map]. f_equal; auto. }
      cbn [subst_e eval]. rewrite Hq1, Hk.
      destruct (opt_all (map (eval st) (map (subst_e es ren) args))) as [vs|]; [|reflexivity].
      apply eval_intr_noninq, Hq1.
  Qed.

  Lemma subst_tgt_rel x k1 k2 st :
    Inv st -> map (eval st) k1 = map (eval st) k2 ->
    fst (subst_tgt ei ren x k1) = fst (subst_tgt es ren x k2) /\
    map (eval st) (snd (subst_tgt ei ren x k1)) = map (eval st) (snd (subst_tgt es ren x k2)).
  Proof.
    intros HI Hk. unfold subst_tgt. specialize (Hrel x).
    destruct (lookup x ei) as [r1|], (lookup x es) as [r2|]; try contradiction; [|cbn; auto].
    destruct Hrel as [y|a ix vs Hv Hi|e0 v Hv Hi|a dims lbs sd Hf Hi]; cbn [fst snd]; auto.
    - split; [reflexivity|]. rewrite map_eval_lits, (evals_inv st ix HI Hi). apply opt_all_some, Hv.
    - split; [reflexivity|]. apply merge_rel; assumption.
  Qed.

  Variable formals : list name.
  Hypothesis Hkeys : forall x, mem x formals = false -> lookup x ei = None.

  Lemma subst_dovar_rel x : mem x formals = false -> subst_dovar ei ren false x = subst_dovar es ren true x.
  Proof.
    intro H. unfold subst_dovar. specialize (Hrel x). rewrite (Hkeys x H) in *.
    destruct (lookup x es); [contradiction|reflexivity].
  Qed.

  Theorem subst_sim f ss :
    forallb (okS formals) ss = true -> incl (wnames (map (subst_s false ei ren) ss)) W ->
    osim Inv (exec f (map (subst_s false ei ren) ss) st0) (exec f (map (subst_s true es ren) ss) st0).
  Proof.
    intros Hok Hw. unfold subst_s.
    apply (sim_exec Inv W Inv_upd formals (subst_e ei ren) (subst_e es ren) (subst_tgt ei ren) (subst_tgt es ren)
             (subst_dovar ei ren false) (subst_dovar es ren true)); auto.
    - intros e st Hq HI. apply subst_e_rel; assumption.
    - intros x k1 k2 st HI Hk. apply subst_tgt_rel; assumption.
    - intros x Hx. apply subst_dovar_rel, Hx.
    - apply Inv0.
  Qed.
End Core.

(** * RETURN: a trailing RETURN is a no-op for the call; code without RETURN never returns *)

Lemma ret2norm_prepend t o : ret2norm (prepend t o) = prepend t (ret2norm o).
Proof. destruct o as [s tr c| |]; try reflexivity. destruct c; reflexivity. Qed.

Lemma exec_snoc_return f : forall ss st,
  obs_eq (ret2norm (exec f (ss ++ [SReturn]) st)) (ret2norm (exec f ss st)).
Proof.
  induction f as [|f IH]; intros ss st; [cbn; exact I|].
  destruct ss as [|s ss].
  - cbn [app]. rewrite exec_cons, exec_nil. cbn. auto.
  - cbn [app]. rewrite !exec_cons.
    destruct (exec_stmt (exec f) s st) as [s1 t1 c1| |]; try (cbn; exact I).
    unfold then_run. destruct c1; cbn [bind_run]; try apply obs_eq_refl.
    rewrite !ret2norm_prepend. apply obs_eq_prepend, IH.
Qed.

Lemma count_returns_cons s ss : count_returns (s :: ss) = (count_returns_s s + count_returns ss)%nat.
Proof. reflexivity. Qed.

Lemma count_returns_app a b : count_returns (a ++ b) = (count_returns a + count_returns b)%nat.
Proof.
  induction a as [|s a IH]; [reflexivity|]. cbn [app]. rewrite !count_returns_cons, IH. lia.
Qed.

Lemma do_loop_noret (run : runner) x l t :
  (forall s s' tr c, run s = Ok s' tr c -> c <> CReturn) ->
  forall n k s s' tr c, do_loop run x l t n k s = Ok s' tr c -> c <> CReturn.
Proof.
  intros Hr. induction n as [|n IH]; intros k s s' tr c H.
  - cbn in H. inversion H. discriminate.
  - cbn [do_loop] in H. destruct (run (upd s (x, []) (l + k * t))) as [s2 t2 c2| |] eqn:E; try discriminate.
    destruct c2.
    + apply prepend_ok_inv in H as [tr0 [H _]]. eapply IH, H.
    + inversion H. discriminate.
    + apply prepend_ok_inv in H as [tr0 [H _]]. eapply IH, H.
    + exfalso. eapply Hr; [exact E|reflexivity].
Qed.

Lemma exec_noret f : forall ss st s' tr c,
  count_returns ss = 0%nat -> exec f ss st = Ok s' tr c -> c <> CReturn.
Proof.
  induction f as [|f IH]; intros ss st s' tr c Hc H; [discriminate|].
  destruct ss as [|s ss]; [rewrite exec_nil in H; inversion H; discriminate|].
  rewrite count_returns_cons in Hc. apply Nat.eq_add_0 in Hc as [Hs Hr].
  rewrite exec_cons in H. apply then_run_ok_inv in H as [[s1 [tr1 [tr2 [H1 [H2 _]]]]]|[Hn H1]].
  - eapply IH; [exact Hr|exact H2].
  - destruct s as [x ks e|c0 th el|x lo hi stp body| | | |es|r body|d body]; cbn [exec_stmt] in H1.
    + destruct (opt_all _), (eval st e); inversion H1; discriminate.
    + cbn [count_returns_s] in Hs. apply Nat.eq_add_0 in Hs as [Hth Hel].
      destruct (eval st c0) as [v|]; [|discriminate].
      apply prepend_ok_inv in H1 as [tr0 [H1 _]]. destruct (v =? 0); [eapply (IH el); [exact Hel|exact H1]|eapply (IH th); [exact Hth|exact H1]].
    + cbn [count_returns_s] in Hs.
      destruct (eval st lo), (eval st hi), (eval st stp) as [t|]; try discriminate.
      destruct (t =? 0); [discriminate|]. apply prepend_ok_inv in H1 as [tr0 [H1 _]].
      eapply do_loop_noret; [|exact H1]. intros s0 s2 t2 c2 H2. eapply IH; [exact Hs|exact H2].
    + inversion H1. discriminate.
    + inversion H1. discriminate.
    + cbn in Hs. discriminate.
    + destruct (opt_all _); inversion H1; discriminate.
    + cbn [count_returns_s] in Hs. destruct (exec f body st) as [s2 t2 c2| |] eqn:E; try discriminate.
      inversion H1; subst. eapply IH; [exact Hs|exact E].
    + cbn [count_returns_s] in Hs. eapply IH; [exact Hs|exact H1].
Qed.

Lemma fold_map_count (h : stmt -> stmt) l :
  Forall (fun s => count_returns_s (h s) = count_returns_s s) l ->
  fold_right (fun x n => (count_returns_s x + n)%nat) 0%nat (map h l) =
  fold_right (fun x n => (count_returns_s x + n)%nat) 0%nat l.
Proof. induction 1 as [|s l Hs _ IH]; [reflexivity|]. cbn [map fold_right]. rewrite Hs, IH. reflexivity. Qed.

Lemma count_returns_map_stmt te tt tv s : count_returns_s (map_stmt te tt tv s) = count_returns_s s.
Proof.
  induction s using stmt_ind'; cbn [map_stmt count_returns_s]; try reflexivity;
    rewrite ?fold_map_count by assumption; reflexivity.
Qed.

Lemma count_returns_map te tt tv ss : count_returns (map (map_stmt te tt tv) ss) = count_returns ss.
Proof.
  unfold count_returns. apply fold_map_count. apply Forall_forall. intros s _. apply count_returns_map_stmt.
Qed.

Lemma strip_return_spec body :
  returns_ok body = true ->
  (count_returns body = 0%nat /\ strip_return body = body) \/
  (exists b, body = b ++ [SReturn] /\ count_returns b = 0%nat /\ strip_return body = b).
Proof.
  unfold returns_ok, strip_return, last_is_return. intro H.
  destruct (count_returns body) as [|[|n]] eqn:E; [| |discriminate].
  - left. split; [reflexivity|]. destruct (rev body) as [|s r] eqn:Er; [reflexivity|].
    destruct s; try reflexivity. exfalso.
    assert (Hb : body = rev r ++ [SReturn]) by (rewrite <- (rev_involutive body), Er; reflexivity).
    rewrite Hb, count_returns_app in E. cbn in E. lia.
  - right. destruct (rev body) as [|s r] eqn:Er; [discriminate|]. destruct s; try discriminate.
    assert (Hb : body = rev r ++ [SReturn]) by (rewrite <- (rev_involutive body), Er; reflexivity).
    exists (rev r). split; [exact Hb|]. split; [|reflexivity].
    rewrite Hb, count_returns_app in E. cbn in E. lia.
Qed.

(** * the theorem *)

Lemma env_impl_keys fs acts x : mem x (map fst fs) = false -> lookup x (env_impl fs acts) = None.
Proof.
  revert acts. induction fs as [|f fs IH]; intros acts H; [reflexivity|].
  destruct acts as [|a acts]; [reflexivity|]. unfold mem in H. cbn [map existsb] in H.
  apply orb_false_iff in H as [H1 H2]. cbn [env_impl lookup fst]. rewrite H1. apply IH, H2.
Qed.

Lemma forallb_app_l {A} (p : A -> bool) a b : forallb p (a ++ b) = true -> forallb p a = true.
Proof. rewrite forallb_app. intro H. apply andb_true_iff in H. tauto. Qed.

Theorem inline_sound_partial_ c ren :
  accept_impl c = true -> in_fragment c = true -> actual_indices_invariant c ren = true ->
  forall fuel st, bind_all st (cs_formals c) (cs_actuals c) <> None ->
  obs_eq (exec fuel (inline_apply c ren) st) (exec_call fuel c ren st).
Proof.
  intros Hacc Hfrag Hinv fuel st Hb.
  unfold exec_call. destruct (bind_all st (cs_formals c) (cs_actuals c)) as [es|] eqn:Eb; [clear Hb|congruence].
  unfold accept_impl in Hacc. unfold in_fragment in Hfrag.
  unfold actual_indices_invariant in Hinv. rewrite forallb_forall in Hinv.
  assert (VW : forall x, In x (protected c) -> ~ In x (wnames (inline_apply c ren))).
  { intros x Hx Hw. specialize (Hinv x Hx). apply negb_true_iff in Hinv.
    apply mem_in in Hw. congruence. }
  assert (Hrel : erel st (protected c) (env_impl (cs_formals c) (cs_actuals c)) es).
  { apply erel_bind; [exact Eb|]. unfold protected. apply incl_refl. }
  unfold inline_apply in *.
  destruct (cs_body c) as [|s0 body] eqn:Ebody.
  - (* empty routine *) cbn [map]. destruct fuel; cbn; auto.
  - assert (Hgen : s0 <> SReturn ->
      obs_eq (exec fuel (map (subst_s false (env_impl (cs_formals c) (cs_actuals c)) ren) (strip_return (s0 :: body))) st)
             (ret2norm (exec fuel (map (subst_s true es ren) (s0 :: body)) st))).
    { intro Hne.
      assert (Hacc' : returns_ok (s0 :: body) = true).
      { destruct s0; try congruence; repeat (apply andb_true_iff in Hacc as [Hacc _]); exact Hacc. }
      assert (VW' : forall x, In x (protected c) ->
                 ~ In x (wnames (map (subst_s false (env_impl (cs_formals c) (cs_actuals c)) ren) (strip_return (s0 :: body))))).
      { destruct s0; try congruence; exact VW. }
      clear VW Hacc.
      destruct (strip_return_spec _ Hacc') as [[Hc Hs]|[b [Hb [Hc Hs]]]]; rewrite Hs in *.
      + pose proof (subst_sim st (protected c) _ VW' ren _ _ Hrel (map fst (cs_formals c))
                      (fun x => env_impl_keys _ _ x) fuel (s0 :: body) Hfrag (incl_refl _)) as Hsim.
        apply osim_obs in Hsim. eapply obs_eq_trans; [|apply obs_eq_ret2norm, Hsim].
        destruct (exec fuel _ st) as [s1 t1 c1| |] eqn:E; try (cbn; exact I).
        assert (c1 <> CReturn).
        { eapply exec_noret; [|exact E]. unfold subst_s. rewrite count_returns_map. exact Hc. }
        destruct c1; cbn; auto. congruence.
      + rewrite Hb in Hfrag |- *. rewrite map_app. cbn [map]. unfold subst_s at 3. cbn [map_stmt].
        pose proof (subst_sim st (protected c) _ VW' ren _ _ Hrel (map fst (cs_formals c))
                      (fun x => env_impl_keys _ _ x) fuel b (forallb_app_l _ _ _ Hfrag) (incl_refl _)) as Hsim.
        apply osim_obs in Hsim.
        eapply obs_eq_trans; [|apply obs_eq_sym, exec_snoc_return].
        eapply obs_eq_trans; [|apply obs_eq_ret2norm, Hsim].
        destruct (exec fuel _ st) as [s1 t1 c1| |] eqn:E; try (cbn; exact I).
        assert (c1 <> CReturn).
        { eapply exec_noret; [|exact E]. unfold subst_s. rewrite count_returns_map. exact Hc. }
        destruct c1; cbn; auto. congruence. }
    destruct s0; try (apply Hgen; discriminate).
    (* first statement is RETURN: the call is simply removed *)
    cbn [map]. unfold subst_s at 1. cbn [map_stmt]. destruct fuel; [cbn; exact I|].
    rewrite exec_cons, exec_nil. cbn. auto.
Qed.
