(* C07 — the full property is false of the faithful model: concrete call sites that InlineTrans
   accepts and on which the inlined statements do not behave like the call.  All by vm_compute.
   Each witness is replayed on the real implementation by props/C07/check.py (WITNESSES). *)
From Coq Require Import List ZArith Bool Lia.
Import ListNotations.
From PV Require Import Fort.Syntax Fort.Sem Fort.Facts3 C07.Model C07.Proofs.
Open Scope Z_scope.

Definition differs_at (l : loc) (o1 o2 : outcome) : bool :=
  match o1, o2 with Ok s1 _ _, Ok s2 _ _ => negb (val s1 l =? val s2 l) | _, _ => false end.

Lemma differs_not_obs l o1 o2 : differs_at l o1 o2 = true -> ~ obs_eq o1 o2.
Proof.
  destruct o1 as [s1 t1 c1| |], o2 as [s2 t2 c2| |]; cbn [differs_at obs_eq]; try discriminate.
  intros H [E _]. subst s2. rewrite Z.eqb_refl in H. discriminate.
Qed.

Definition refutes (c : callsite) (ren : list (name * name)) (st : store) (fuel : nat) : Prop :=
  accept_impl c = true /\ ren_ok c ren = true /\ locals_disjoint_outer c = true /\
  bind_all st (cs_formals c) (cs_actuals c) <> None /\
  ~ obs_eq (exec fuel (inline_apply c ren) st) (exec_call fuel c ren st).

(* names: x=0 j=1 | a=2 i=3 t=4 *)
(* call s(a(i), i)   with   s(x, j): j = j + 1; x = 5        (i = 2) *)
Definition c_index : callsite :=
  mkCS [(0%nat, []); (1%nat, [])] []
       [SAssign 1%nat [] (EBin Add (EVar 1%nat) (ELit 1)); SAssign 0%nat [] (ELit 5)]
       [AElem 2%nat [EVar 3%nat]; AVar 3%nat] [2%nat; 3%nat; 4%nat] [].
Definition st_i2 : store := store_of [((3%nat, []), 2)] [].

Lemma refuted_index : refutes c_index [] st_i2 5 /\ in_fragment c_index = true /\
                      actual_indices_invariant c_index [] = false.
Proof.
  unfold refutes. repeat split; try (vm_compute; reflexivity); try (vm_compute; discriminate).
  apply (differs_not_obs (2%nat, [2])). vm_compute. reflexivity.
Qed.

(* call s(i + 1, i, t)   with   s(x, j, y): j = j + 1; y = x *)
Definition c_expr : callsite :=
  mkCS [(0%nat, []); (1%nat, []); (5%nat, [])] []
       [SAssign 1%nat [] (EBin Add (EVar 1%nat) (ELit 1)); SAssign 5%nat [] (EVar 0%nat)]
       [AExpr (EBin Add (EVar 3%nat) (ELit 1)); AVar 3%nat; AVar 4%nat] [2%nat; 3%nat; 4%nat] [].

Lemma refuted_expr : refutes c_expr [] st_i2 5 /\ in_fragment c_expr = true /\
                     actual_indices_invariant c_expr [] = false.
Proof.
  unfold refutes. repeat split; try (vm_compute; reflexivity); try (vm_compute; discriminate).
  apply (differs_not_obs (4%nat, [])). vm_compute. reflexivity.
Qed.

(* call s(a(i:), i)   with   s(x(:), j): j = j + 1; x(1) = 9 *)
Definition c_section : callsite :=
  mkCS [(0%nat, [1]); (1%nat, [])] []
       [SAssign 1%nat [] (EBin Add (EVar 1%nat) (ELit 1)); SAssign 0%nat [ELit 1] (ELit 9)]
       [AArr 2%nat [DFrom (EVar 3%nat)] true; AVar 3%nat] [2%nat; 3%nat; 4%nat] [].

Lemma refuted_section : refutes c_section [] st_i2 5 /\ in_fragment c_section = true /\
                        actual_indices_invariant c_section [] = false.
Proof.
  unfold refutes. repeat split; try (vm_compute; reflexivity); try (vm_compute; discriminate).
  apply (differs_not_obs (2%nat, [2])). vm_compute. reflexivity.
Qed.

(* call s(i, t)   with   s(j, x): do j = 1, 3; x = x + j; end do
   — the DO variable is not substituted: outside [in_fragment], inside what InlineTrans accepts *)
Definition c_loopvar : callsite :=
  mkCS [(1%nat, []); (0%nat, [])] []
       [SDo 1%nat (ELit 1) (ELit 3) (ELit 1) [SAssign 0%nat [] (EBin Add (EVar 0%nat) (EVar 1%nat))]]
       [AVar 3%nat; AVar 4%nat] [2%nat; 3%nat; 4%nat] [].

Lemma refuted_loopvar : refutes c_loopvar [] st_i2 9 /\ in_fragment c_loopvar = false /\
                        actual_indices_invariant c_loopvar [] = true.
Proof.
  unfold refutes. repeat split; try (vm_compute; reflexivity); try (vm_compute; discriminate).
  apply (differs_not_obs (3%nat, [])). vm_compute. reflexivity.
Qed.

(* module variable g=6 used by the caller; call s(t) with s(x): integer :: g;  g = 5; x = g.
   SymbolTable.merge keeps the local's name (it is not in the calling routine's OWN table): the
   renaming [(g, g)] satisfies the merge contract, and the inlined code assigns the module variable *)
Definition c_capture : callsite :=
  mkCS [(0%nat, [])] [(6%nat, false)]
       [SAssign 6%nat [] (ELit 5); SAssign 0%nat [] (EVar 6%nat)]
       [AVar 4%nat] [2%nat; 3%nat; 4%nat] [6%nat].

Lemma refuted_capture :
  accept_impl c_capture = true /\ in_fragment c_capture = true /\ ren_ok c_capture [(6%nat, 6%nat)] = true /\
  actual_indices_invariant c_capture [(6%nat, 6%nat)] = true /\ locals_disjoint_outer c_capture = false /\
  In 6%nat (cs_outer c_capture) /\ In 6%nat (wnames (inline_apply c_capture [(6%nat, 6%nat)])) /\
  (exists s' tr, exec 5 (inline_apply c_capture [(6%nat, 6%nat)]) st_i2 = Ok s' tr CNormal /\
                 val s' (6%nat, []) <> val st_i2 (6%nat, [])).
Proof.
  repeat split; try (vm_compute; reflexivity); try (vm_compute; tauto).
  eexists. eexists. split; [vm_compute; reflexivity|]. vm_compute. discriminate.
Qed.

(** existential forms used by Properties/C07.v *)
Lemma inline_refuted_index_ : exists c ren st fuel, refutes c ren st fuel /\ in_fragment c = true.
Proof. exists c_index, [], st_i2, 5%nat. split; apply refuted_index. Qed.
Lemma inline_refuted_expr_ : exists c ren st fuel, refutes c ren st fuel /\ in_fragment c = true.
Proof. exists c_expr, [], st_i2, 5%nat. split; apply refuted_expr. Qed.
Lemma inline_refuted_section_ : exists c ren st fuel, refutes c ren st fuel /\ in_fragment c = true.
Proof. exists c_section, [], st_i2, 5%nat. split; apply refuted_section. Qed.
Lemma inline_refuted_loopvar_ : exists c ren st fuel, refutes c ren st fuel /\ actual_indices_invariant c ren = true.
Proof. exists c_loopvar, [], st_i2, 9%nat. split; apply refuted_loopvar. Qed.
Lemma inline_refuted_capture_ : exists c ren st fuel y,
  accept_impl c = true /\ in_fragment c = true /\ ren_ok c ren = true /\
  In y (cs_outer c) /\ In y (wnames (inline_apply c ren)) /\
  exists s' tr, exec fuel (inline_apply c ren) st = Ok s' tr CNormal /\ val s' (y, []) <> val st (y, []).
Proof.
  exists c_capture, [(6%nat, 6%nat)], st_i2, 5%nat, 6%nat.
  destruct refuted_capture as [H1 [H2 [H3 [_ [_ [H6 [H7 H8]]]]]]]. repeat split; assumption.
Qed.
