(* C07 — InlineTrans (psyir/transformations/inline_trans.py): faithful model of validate/apply on
   MiniFortran call sites, and the Fortran by-reference semantics of a call.  Definitions only.

   A call site packages what InlineTrans looks at: the called routine (formal arguments with the
   lower bounds they are declared with, local variables, body), the actual arguments, and the names
   visible at the call (the calling routine's own symbol table and the enclosing scopes).

   inline_apply  = _replace_formal_arg / _replace_formal_struc_arg / _update_actual_indices /
                   _create_inlined_idx (TEXTUAL substitution of the actual-argument expressions) +
                   the renaming decided by SymbolTable.merge + removal of a trailing RETURN.
   accept_impl   = the modelled tests of InlineTrans.validate.
   exec_call     = what the call means: every formal denotes the LOCATION selected when the call is
                   made (element indices, section bases and expression actuals are evaluated once, at
                   the call), locals live under the fresh names [ren] gives them. *)
From Coq Require Import List ZArith Bool Lia.
Import ListNotations.
From PV Require Import Fort.Syntax Fort.Sem Fort.Facts3.
Open Scope Z_scope.

(** * Call sites *)

Inductive adim :=
| DFull (lba : Z)          (* `:`  — whole extent; lba = lower bound the CALLER declares *)
| DFrom (lo : expr)        (* `lo:hi` — section starting at lo *)
| DFix (e : expr).         (* scalar subscript inside a section, e.g. d(e, :) *)

Inductive actual :=
| AVar (y : name)                                   (* scalar variable *)
| AElem (a : name) (ix : list expr)                 (* array element a(ix) *)
| AExpr (e : expr)                                  (* expression / literal *)
| AArr (a : name) (dims : list adim) (unit : bool). (* whole array or section; unit = all strides 1 *)

Record callsite := mkCS {
  cs_formals : list (name * list Z);   (* formal argument, declared lower bounds ([] = scalar) *)
  cs_locals : list (name * bool);      (* callee local (symbol-table order), SAVE flag *)
  cs_body : list stmt;
  cs_actuals : list actual;
  cs_own : list name;                  (* symbol table of the calling routine *)
  cs_outer : list name }.              (* names of the enclosing scopes (container, routine names) *)

Fixpoint lookup {A} (x : name) (l : list (name * A)) : option A :=
  match l with [] => None | (y, v) :: r => if Nat.eqb x y then Some v else lookup x r end.
Definition mem (x : name) (l : list name) : bool := existsb (Nat.eqb x) l.
Definition rename (ren : list (name * name)) (x : name) : name :=
  match lookup x ren with Some y => y | None => x end.

(** * Substitution *)

Inductive sdim := SFix (v : Z) | SOff (off : Z).

Inductive repl :=
| RVar (y : name)
| RElem (a : name) (ix : list expr)
| RExpr (e : expr)
| RArr (a : name) (dims : list adim) (lbs : list Z)     (* as InlineTrans builds it *)
| RSem (a : name) (dims : list sdim).                    (* location view fixed at the call *)

(* _create_inlined_idx: `decln_start == actual_start` is node equality with a Literal *)
Definition is_lit (z : Z) (e : expr) : bool := match e with ELit v => Z.eqb v z | _ => false end.
Definition shift (k : expr) (lbx : Z) (start : expr) : expr :=
  if is_lit lbx start then k else EBin Add (EBin Sub k (ELit lbx)) start.

(* _update_actual_indices: every Range of the actual takes the next local index, shifted *)
Fixpoint merge_dims (dims : list adim) (lbs : list Z) (ks : list expr) : list expr :=
  match dims with
  | [] => []
  | DFix e :: ds => e :: merge_dims ds lbs ks
  | DFull lba :: ds =>
      match lbs with
      | [] => []
      | lbx :: lbs' => match ks with
                       | [] => merge_dims ds lbs' []
                       | k :: ks' => shift k lbx (ELit lba) :: merge_dims ds lbs' ks' end
      end
  | DFrom lo :: ds =>
      match lbs with
      | [] => []
      | lbx :: lbs' => match ks with
                       | [] => merge_dims ds lbs' []
                       | k :: ks' => shift k lbx lo :: merge_dims ds lbs' ks' end
      end
  end.

Fixpoint merge_sem (dims : list sdim) (ks : list expr) : list expr :=
  match dims with
  | [] => []
  | SFix v :: ds => ELit v :: merge_sem ds ks
  | SOff off :: ds => match ks with
                      | [] => merge_sem ds []
                      | k :: ks' => EBin Add k (ELit off) :: merge_sem ds ks' end
  end.

Section Subst.
  Variable env : list (name * repl).
  Variable ren : list (name * name).

  Fixpoint subst_e (e : expr) : expr :=
    match e with
    | ELit z => ELit z
    | EVar x => match lookup x env with
                | Some (RVar y) => EVar y
                | Some (RElem a ix) => EIdx a ix
                | Some (RExpr e') => e'
                | Some (RArr a _ _) => EVar a
                | Some (RSem a _) => EVar a
                | None => EVar (rename ren x)
                end
    | EIdx x ks =>
        let ks' := map subst_e ks in
        match lookup x env with
        | Some (RArr a dims lbs) => EIdx a (merge_dims dims lbs ks')
        | Some (RSem a dims) => EIdx a (merge_sem dims ks')
        | Some (RVar y) => EIdx y ks'
        | Some (RElem a _) => EIdx a ks'     (* no Range in the actual: the local indices are used *)
        | Some (RExpr e') => e'              (* not meaningful Fortran *)
        | None => EIdx (rename ren x) ks'
        end
    | EUn o e1 => EUn o (subst_e e1)
    | EBin o l r => EBin o (subst_e l) (subst_e r)
    | EIntr f args => EIntr f (map subst_e args)
    end.

  (* the target of an assignment; [ks] are the already substituted subscripts *)
  Definition subst_tgt (x : name) (ks : list expr) : name * list expr :=
    match lookup x env with
    | Some (RVar y) => (y, ks)
    | Some (RElem a ix) => (a, ix)
    | Some (RArr a dims lbs) => (a, merge_dims dims lbs ks)
    | Some (RSem a dims) => (a, merge_sem dims ks)
    | Some (RExpr _) => (x, ks)
    | None => (rename ren x, ks)
    end.

  (* DO variables: Loop.variable is a Symbol, not a Reference — InlineTrans never substitutes it
     (impl); in the semantics a scalar formal bound to a variable IS that variable (sem) *)
  Definition subst_dovar (sem : bool) (x : name) : name :=
    match lookup x env with
    | Some (RVar y) => if sem then y else x
    | Some _ => x
    | None => rename ren x
    end.
End Subst.

Fixpoint map_stmt (te : expr -> expr) (tt : name -> list expr -> name * list expr) (tv : name -> name)
         (s : stmt) : stmt :=
  match s with
  | SAssign x ks e => let p := tt x (map te ks) in SAssign (fst p) (snd p) (te e)
  | SIf c th el => SIf (te c) (map (map_stmt te tt tv) th) (map (map_stmt te tt tv) el)
  | SDo x lo hi st body => SDo (tv x) (te lo) (te hi) (te st) (map (map_stmt te tt tv) body)
  | SExit => SExit
  | SCycle => SCycle
  | SReturn => SReturn
  | SPrint es => SPrint (map te es)
  | SRegion r b => SRegion r (map (map_stmt te tt tv) b)
  | SDir d b => SDir d (map (map_stmt te tt tv) b)
  end.

Definition subst_s (sem : bool) env ren : stmt -> stmt :=
  map_stmt (subst_e env ren) (subst_tgt env ren) (subst_dovar env ren sem).

(** * apply *)

Definition repl_impl (f : name * list Z) (a : actual) : repl :=
  match a with
  | AVar y => RVar y
  | AElem a ix => RElem a ix
  | AExpr e => RExpr e
  | AArr a dims _ => RArr a dims (snd f)
  end.

Fixpoint env_impl (fs : list (name * list Z)) (acts : list actual) : list (name * repl) :=
  match fs, acts with
  | f :: fs', a :: acts' => (fst f, repl_impl f a) :: env_impl fs' acts'
  | _, _ => []
  end.

Definition strip_return (ss : list stmt) : list stmt :=
  match rev ss with SReturn :: r => rev r | _ => ss end.

Definition inline_apply (c : callsite) (ren : list (name * name)) : list stmt :=
  match cs_body c with
  | [] => []
  | SReturn :: _ => []
  | body => map (subst_s false (env_impl (cs_formals c) (cs_actuals c)) ren) (strip_return body)
  end.

(** * validate *)

Fixpoint count_returns_s (s : stmt) : nat :=
  match s with
  | SReturn => 1%nat
  | SIf _ th el => (fold_right (fun x n => count_returns_s x + n) 0 th + fold_right (fun x n => count_returns_s x + n) 0 el)%nat
  | SDo _ _ _ _ b | SRegion _ b | SDir _ b => fold_right (fun x n => count_returns_s x + n)%nat 0%nat b
  | _ => 0%nat
  end.
Definition count_returns (ss : list stmt) : nat := fold_right (fun x n => count_returns_s x + n)%nat 0%nat ss.

(* EXIT, CYCLE and PRINT reach the PSyIR as CodeBlocks *)
Fixpoint has_codeblock_s (s : stmt) : bool :=
  match s with
  | SExit | SCycle | SPrint _ => true
  | SIf _ th el => existsb has_codeblock_s th || existsb has_codeblock_s el
  | SDo _ _ _ _ b | SRegion _ b | SDir _ b => existsb has_codeblock_s b
  | _ => false
  end.

Definition last_is_return (ss : list stmt) : bool :=
  match rev ss with SReturn :: _ => true | _ => false end.

Definition returns_ok (ss : list stmt) : bool :=
  match count_returns ss with
  | O => true
  | S O => last_is_return ss
  | _ => false
  end.

Definition callee_names (c : callsite) : list name := map fst (cs_formals c) ++ map fst (cs_locals c).

(* every symbol referenced in the body is declared in the routine itself *)
Definition closed (c : callsite) : bool :=
  forallb (fun x => mem x (callee_names c)) (rnames (cs_body c) ++ wnames (cs_body c)).

Definition ranged (dims : list adim) : nat :=
  length (filter (fun d => match d with DFix _ => false | _ => true end) dims).

Definition arg_ok (f : name * list Z) (a : actual) : bool :=
  match snd f with
  | [] => true                                   (* scalar formal: nothing is checked *)
  | lbs => match a with
           | AArr _ dims u => Nat.eqb (ranged dims) (length lbs) && u
           | _ => false                          (* rank 0, or not a Reference/Literal *)
           end
  end.

Fixpoint args_ok (fs : list (name * list Z)) (acts : list actual) : bool :=
  match fs, acts with
  | [], [] => true
  | f :: fs', a :: acts' => arg_ok f a && args_ok fs' acts'
  | _, _ => false                                (* argument count differs *)
  end.

Definition accept_impl (c : callsite) : bool :=
  match cs_body c with
  | [] => true
  | SReturn :: _ => true
  | body => returns_ok body && negb (existsb has_codeblock_s body)
            && negb (existsb snd (cs_locals c)) && closed c && args_ok (cs_formals c) (cs_actuals c)
  end.

(** * SymbolTable.merge: the contract of the renaming it decides
   [ren] lists (local, name it has after the merge) in symbol-table order.  A local is renamed
   exactly when its name is already in the table merged into ([own], growing); the new name is
   outside every scope of the caller and outside the callee's table.
   (A local that clashes only with an OUTER scope keeps its name in the unchanged code; the proposed
   repair props/C07/fix.patch gives it a fresh name instead: the contract admits both, so that the
   check works on either tree.) *)
Fixpoint ren_ok_aux (outer own avoid : list name) (locals : list name) (ren : list (name * name)) : bool :=
  match locals, ren with
  | [], [] => true
  | l :: ls, (l', n) :: rs =>
      Nat.eqb l l' && (if mem l own then negb (mem n avoid)
                       else Nat.eqb n l || (mem l outer && negb (mem n avoid)))
      && ren_ok_aux outer (n :: own) (n :: avoid) ls rs
  | _, _ => false
  end.
Definition ren_ok (c : callsite) (ren : list (name * name)) : bool :=
  ren_ok_aux (cs_outer c) (cs_own c) (cs_own c ++ cs_outer c ++ map fst (cs_locals c)) (map fst (cs_locals c)) ren.

(** * The meaning of the call *)

Fixpoint freeze_dims (st : store) (dims : list adim) (lbs : list Z) : option (list sdim) :=
  match dims with
  | [] => Some []
  | DFix e :: ds =>
      match eval st e, freeze_dims st ds lbs with Some v, Some r => Some (SFix v :: r) | _, _ => None end
  | DFull lba :: ds =>
      match lbs with
      | [] => None
      | lbx :: lbs' => option_map (cons (SOff (lba - lbx))) (freeze_dims st ds lbs')
      end
  | DFrom lo :: ds =>
      match lbs, eval st lo with
      | lbx :: lbs', Some v => option_map (cons (SOff (v - lbx))) (freeze_dims st ds lbs')
      | _, _ => None
      end
  end.

Definition bind_actual (st : store) (f : name * list Z) (a : actual) : option repl :=
  match a with
  | AVar y => Some (RVar y)
  | AElem a ix => option_map (fun vs => RElem a (map ELit vs)) (opt_all (map (eval st) ix))
  | AExpr e => option_map (fun v => RExpr (ELit v)) (eval st e)
  | AArr a dims _ => option_map (RSem a) (freeze_dims st dims (snd f))
  end.

Fixpoint bind_all (st : store) (fs : list (name * list Z)) (acts : list actual) : option (list (name * repl)) :=
  match fs, acts with
  | f :: fs', a :: acts' =>
      match bind_actual st f a, bind_all st fs' acts' with
      | Some r, Some e => Some ((fst f, r) :: e)
      | _, _ => None
      end
  | _, _ => Some []
  end.

Definition ret2norm (o : outcome) : outcome :=
  match o with Ok s tr CReturn => Ok s tr CNormal | other => other end.

Definition exec_call (fuel : nat) (c : callsite) (ren : list (name * name)) (st : store) : outcome :=
  match bind_all st (cs_formals c) (cs_actuals c) with
  | Some env => ret2norm (exec fuel (map (subst_s true env ren) (cs_body c)) st)
  | None => Fault
  end.

(** * The sufficient condition of the soundness theorem *)

Definition adim_names (d : adim) : list name :=
  match d with DFull _ => [] | DFrom e => enames e | DFix e => enames e end.
(* names whose value decides WHICH location / value an actual argument denotes *)
Definition actual_index_names (a : actual) : list name :=
  match a with
  | AVar _ => []
  | AElem _ ix => flat_map enames ix
  | AExpr e => enames e
  | AArr _ dims _ => flat_map adim_names dims
  end.
Definition protected (c : callsite) : list name := flat_map actual_index_names (cs_actuals c).

(* no name used in an index / section base / expression actual is assigned by the inlined body *)
Definition actual_indices_invariant (c : callsite) (ren : list (name * name)) : bool :=
  forallb (fun x => negb (mem x (wnames (inline_apply c ren)))) (protected c).

Fixpoint inq_free_e (e : expr) : bool :=
  match e with
  | ELit _ | EVar _ => true
  | EIdx _ ks => forallb inq_free_e ks
  | EUn _ e1 => inq_free_e e1
  | EBin _ l r => inq_free_e l && inq_free_e r
  | EIntr f args => negb (is_inquiry f) && forallb inq_free_e args
  end.
Fixpoint okS (formals : list name) (s : stmt) : bool :=
  match s with
  | SAssign _ ks e => forallb inq_free_e ks && inq_free_e e
  | SIf c th el => inq_free_e c && forallb (okS formals) th && forallb (okS formals) el
  | SDo x lo hi st b => negb (mem x formals) && inq_free_e lo && inq_free_e hi && inq_free_e st && forallb (okS formals) b
  | SPrint es => forallb inq_free_e es
  | SRegion _ b | SDir _ b => forallb (okS formals) b
  | _ => true
  end.
(* the fragment the theorem speaks about: no bounds inquiries in the callee, no formal argument used
   as a DO variable *)
Definition in_fragment (c : callsite) : bool := forallb (okS (map fst (cs_formals c))) (cs_body c).

(* the locals never bear a name of an enclosing scope of the caller (merge only looks at [own]) *)
Definition locals_disjoint_outer (c : callsite) : bool :=
  forallb (fun l => negb (mem (fst l) (cs_outer c)) || mem (fst l) (cs_own c)) (cs_locals c).

(** * Executable comparison used by the correspondence run *)

Fixpoint expr_eqb (a b : expr) : bool :=
  match a, b with
  | ELit x, ELit y => Z.eqb x y
  | EVar x, EVar y => Nat.eqb x y
  | EIdx x ks, EIdx y ls => Nat.eqb x y && (fix go (l1 l2 : list expr) : bool :=
        match l1, l2 with [], [] => true | u :: l1', v :: l2' => expr_eqb u v && go l1' l2' | _, _ => false end) ks ls
  | EUn o e1, EUn p e2 => match o, p with Neg, Neg | Not, Not => true | _, _ => false end && expr_eqb e1 e2
  | EBin o l r, EBin p l2 r2 =>
      match o, p with
      | Add, Add | Sub, Sub | Mul, Mul | Div, Div | Pow, Pow | Eq, Eq | Ne, Ne | Lt, Lt | Le, Le | Gt, Gt | Ge, Ge
      | And, And | Or, Or => true | _, _ => false end && expr_eqb l l2 && expr_eqb r r2
  | EIntr f xs, EIntr g ys =>
      match f, g with
      | IMin, IMin | IMax, IMax | IMod, IMod | IAbs, IAbs | ISign, ISign | ILbound, ILbound | IUbound, IUbound
      | ISize, ISize => true | _, _ => false end &&
      (fix go (l1 l2 : list expr) : bool :=
        match l1, l2 with [], [] => true | u :: l1', v :: l2' => expr_eqb u v && go l1' l2' | _, _ => false end) xs ys
  | _, _ => false
  end.
Fixpoint exprs_eqb (l1 l2 : list expr) : bool :=
  match l1, l2 with [], [] => true | u :: l1', v :: l2' => expr_eqb u v && exprs_eqb l1' l2' | _, _ => false end.

Fixpoint stmt_eqb (a b : stmt) : bool :=
  let go := (fix go (l1 l2 : list stmt) : bool :=
        match l1, l2 with [], [] => true | u :: l1', v :: l2' => stmt_eqb u v && go l1' l2' | _, _ => false end) in
  match a, b with
  | SAssign x ks e, SAssign y ls e2 => Nat.eqb x y && exprs_eqb ks ls && expr_eqb e e2
  | SIf c th el, SIf c2 th2 el2 => expr_eqb c c2 && go th th2 && go el el2
  | SDo x lo hi st b1, SDo y lo2 hi2 st2 b2 =>
      Nat.eqb x y && expr_eqb lo lo2 && expr_eqb hi hi2 && expr_eqb st st2 && go b1 b2
  | SExit, SExit | SCycle, SCycle | SReturn, SReturn => true
  | SPrint es, SPrint fs => exprs_eqb es fs
  | SRegion r b1, SRegion q b2 => Nat.eqb r q && go b1 b2
  | SDir r b1, SDir q b2 => Nat.eqb r q && go b1 b2
  | _, _ => false
  end.
Fixpoint stmts_eqb (l1 l2 : list stmt) : bool :=
  match l1, l2 with [], [] => true | u :: l1', v :: l2' => stmt_eqb u v && stmts_eqb l1' l2' | _, _ => false end.

(* a correspondence case: the call site, the renaming InlineTrans/merge decided, and the statements
   that replaced the call (None = the implementation refused).  The implementation may be stricter
   than the model, never laxer; when it accepts, the renaming obeys the merge contract and the tree
   is the model's. *)
Definition corr_case := (callsite * list (name * name) * option (list stmt))%type.
(* an empty routine (or one starting with RETURN): the call is removed and nothing is merged *)
Definition trivial_body (c : callsite) : bool :=
  match cs_body c with [] => true | SReturn :: _ => true | _ => false end.
Definition corr_check (k : corr_case) : bool :=
  match k with
  | (c, ren, None) => true
  | (c, ren, Some t) =>
      accept_impl c && (if trivial_body c then match ren with [] => true | _ => false end else ren_ok c ren)
      && stmts_eqb (inline_apply c ren) t
  end.

(* semantic cross-validation of [exec_call] against the harness's by-reference interpreter:
   expected = None (fault) or the final values of the listed locations *)
Definition sem_case := (callsite * list (name * name) * store * option (list (loc * Z)))%type.
Definition sem_check (k : sem_case) : bool :=
  match k with
  | (c, ren, st, exp) =>
      match exec_call 400 c ren st, exp with
      | Ok s' _ CNormal, Some fin => forallb (fun lv => Z.eqb (val s' (fst lv)) (snd lv)) fin
      | Fault, None => true
      | _, _ => false
      end
  end.
