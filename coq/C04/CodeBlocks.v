(* C04 -- scope merging in the presence of CodeBlocks (opaque text that mentions symbols by NAME).

   A scope is now a pair (cb, table): [cb] = the normalised names occurring in the CodeBlocks below
   that scope's node (CodeBlock.get_symbol_names, lower-cased by SymbolTable.rename_symbol).
   Model of SymbolTable.merge as called by FortranWriter.routine_node, for renameable symbols:
     check_for_clashes : a clash is resolvable when the symbol of the merged table, or the inner one,
                         passes rename_symbol(dry_run); rename_symbol refuses a symbol whose normalised
                         name occurs in a CodeBlock below the table's node.  The merged table is
                         attached to the Routine, so its CodeBlock names include the inner scope's:
                         the clash is unresolvable exactly when the name is in the inner scope's [cb]
                         -> SymbolError "Cannot merge ..." ([None]); nothing is renamed.
     _handle_symbol_clash : otherwise the inner symbol is renamed to next_available_name.
   No proofs of the earlier files are changed: when the guarded merge succeeds it returns what the
   unguarded [merge_table] returns. *)
From Coq Require Import List Arith Bool Lia String NArith.
Import ListNotations.
From PV Require Import C03.Names C03.Decls C03.FlattenProofs.
Open Scope list_scope.

Fixpoint merge_table_cb (outer cb : list string) (acc inner : list sym) : option (list sym) :=
  match inner with
  | [] => Some acc
  | s :: r =>
    if mem_str (normalize (s_name s)) (nnames acc) then
      if mem_str (normalize (s_name s)) cb then None          (* SymbolError: cannot be renamed *)
      else
        let ex := nnames acc ++ outer ++ nnames (s :: r) in
        match fresh_loop (S (List.length ex)) (s_name s) ex 0%N with
        | Some n => merge_table_cb outer cb (acc ++ [set_name s n]) r
        | None => merge_table_cb outer cb (acc ++ [s]) r
        end
    else merge_table_cb outer cb (acc ++ [s]) r
  end.

Fixpoint flatten_cb_go (outer : list string) (acc : list sym) (inners : list (list string * list sym))
  : option (list sym) :=
  match inners with
  | [] => Some acc
  | (cb, t) :: r => match merge_table_cb outer cb acc t with
                    | Some a => flatten_cb_go outer a r
                    | None => None
                    end
  end.

(* the Routine's own table (names pairwise different) first, then the inner scopes in walk order *)
Definition flatten_cb (outer : list string) (routine : list sym) (inners : list (list string * list sym)) :=
  flatten_cb_go outer routine inners.

(* harness checker: observed = Some (names of the merged table in order) | None (merge refused) *)
Definition agrees_flatten_cb (c : (list string * list sym * list (list string * list sym)) * option (list string)) : bool :=
  match c with
  | ((o, r, i), obs) => match flatten_cb o r i, obs with
                        | Some f, Some n => list_str_eqb (map s_name f) n
                        | None, None => true
                        | _, _ => false
                        end
  end.

(* what the guarded merge may do to a symbol of a scope whose CodeBlocks mention the names [cb] *)
Definition keeps (outer cb : list string) (s s' : sym) : Prop :=
  renamed outer s s' /\ (In (normalize (s_name s)) cb -> s' = s).

Lemma merge_table_cb_eq : forall outer cb inner acc r,
    merge_table_cb outer cb acc inner = Some r -> r = merge_table outer acc inner.
Proof.
  intros outer cb inner; induction inner as [|s t IH]; intros acc r H; cbn [merge_table_cb merge_table] in *;
    [inversion H; reflexivity|].
  destruct (mem_str (normalize (s_name s)) (nnames acc)).
  - destruct (mem_str (normalize (s_name s)) cb); [discriminate|].
    destruct (fresh_loop (S (List.length (nnames acc ++ outer ++ nnames (s :: t)))) (s_name s)
                         (nnames acc ++ outer ++ nnames (s :: t)) 0%N); apply IH; exact H.
  - apply IH; exact H.
Qed.

Lemma merge_table_cb_spec : forall outer cb inner acc r,
    merge_table_cb outer cb acc inner = Some r ->
    exists inner', r = acc ++ inner' /\ Forall2 (keeps outer cb) inner inner'.
Proof.
  intros outer cb inner; induction inner as [|s t IH]; intros acc r H; cbn [merge_table_cb] in H.
  - inversion H; subst. exists []. rewrite app_nil_r. split; [reflexivity|constructor].
  - destruct (mem_str (normalize (s_name s)) (nnames acc)) eqn:E.
    + destruct (mem_str (normalize (s_name s)) cb) eqn:Ecb; [discriminate|].
      destruct (fresh_for_clash outer acc s t) as [n [Hn [_ [Ho Hs]]]].
      rewrite Hn in H.
      destruct (IH _ _ H) as [t' [E1 E2]].
      exists (set_name s n :: t'). rewrite E1, <- app_assoc. split; [reflexivity|].
      constructor; [|exact E2]. split.
      * apply rn_fresh; [exact Ho|]. intro Heq. apply Hs. simpl. left. symmetry. exact Heq.
      * intro Hin. apply mem_str_In in Hin. congruence.
    + destruct (IH _ _ H) as [t' [E1 E2]].
      exists (s :: t'). rewrite E1, <- app_assoc. split; [reflexivity|].
      constructor; [|exact E2]. split; [apply rn_same | reflexivity].
Qed.

Lemma flatten_cb_go_spec : forall outer inners acc f,
    flatten_cb_go outer acc inners = Some f ->
    exists xs, f = acc ++ List.concat xs /\
               Forall2 (fun ct x => Forall2 (keeps outer (fst ct)) (snd ct) x) inners xs.
Proof.
  intros outer inners; induction inners as [|[cb t] r IH]; intros acc f H; simpl in H.
  - inversion H; subst. exists []. simpl. rewrite app_nil_r. split; [reflexivity|constructor].
  - destruct (merge_table_cb outer cb acc t) as [a|] eqn:E; [|discriminate].
    destruct (merge_table_cb_spec _ _ _ _ _ E) as [t' [E1 E2]]. subst a.
    destruct (IH _ _ H) as [xs [E3 E4]].
    exists (t' :: xs). simpl. rewrite E3, <- app_assoc. split; [reflexivity|].
    constructor; [exact E2 | exact E4].
Qed.

Lemma flatten_cb_go_nodup : forall outer inners acc f,
    flatten_cb_go outer acc inners = Some f -> NoDup (nnames acc) -> NoDup (nnames f).
Proof.
  intros outer inners; induction inners as [|[cb t] r IH]; intros acc f H Hn; simpl in H.
  - inversion H; subst. exact Hn.
  - destruct (merge_table_cb outer cb acc t) as [a|] eqn:E; [|discriminate].
    apply (IH _ _ H). rewrite (merge_table_cb_eq _ _ _ _ _ E). apply merge_table_nodup. exact Hn.
Qed.

(* merge_no_capture for references that are text: when the writer merges the scopes (does not raise),
   (1) the routine-scope symbols are untouched, (2) in every inner scope a symbol whose name occurs in a
   CodeBlock of that scope keeps its name (other clashing symbols get fresh names outside the enclosing
   scopes), (3) all names of the flat table are pairwise different -- so a name written in a CodeBlock
   denotes, in the flat routine, the same symbol object it resolved to in the scoped tree. *)
Theorem merge_no_capture_codeblocks_ : forall outer routine inners f,
    NoDup (nnames routine) ->
    flatten_cb outer routine inners = Some f ->
    exists xs, f = routine ++ List.concat xs /\
               Forall2 (fun ct x => Forall2 (keeps outer (fst ct)) (snd ct) x) inners xs /\
               NoDup (nnames f).
Proof.
  intros outer routine inners f Hn H. unfold flatten_cb in H.
  destruct (flatten_cb_go_spec _ _ _ _ H) as [xs [E1 E2]].
  exists xs. split; [exact E1|]. split; [exact E2|]. eapply flatten_cb_go_nodup; eauto.
Qed.

(* uniqueness turned into resolution: in the flat table a normalised name denotes one symbol *)
Lemma unique_resolution : forall f s s', NoDup (nnames f) -> In s f -> In s' f ->
    normalize (s_name s) = normalize (s_name s') -> s = s'.
Proof.
  induction f as [|a f IH]; intros s s' Hn Hs Hs' E; [destruct Hs|].
  simpl in Hn. inversion Hn as [|? ? Ha Hf]; subst.
  destruct Hs as [Hs|Hs], Hs' as [Hs'|Hs'].
  - congruence.
  - subst. exfalso. apply Ha. rewrite E. unfold nnames. apply (in_map (fun x => normalize (s_name x))). exact Hs'.
  - subst. exfalso. apply Ha. rewrite <- E. unfold nnames. apply (in_map (fun x => normalize (s_name x))). exact Hs.
  - eapply IH; eauto.
Qed.

(* the refusal is real, and so is the danger it guards against: without the guard ([merge_table]) the
   inner "tmp" -- which the CodeBlock of its scope spells TMP -- is renamed and the text is captured
   by the routine-scope tmp *)
Open Scope string_scope.
Example guard_refuses :
  flatten_cb [] [mkSym 0 "tmp" CVar [] []] [(["tmp"], [mkSym 1 "tmp" CVar [] []])] = None
  /\ map s_name (flatten [] [mkSym 0 "tmp" CVar [] []] [[mkSym 1 "tmp" CVar [] []]]) = ["tmp"; "tmp_1"].
Proof. split; vm_compute; reflexivity. Qed.

Example guard_nonvacuous :
  option_map (map s_name)
    (flatten_cb ["m"] [mkSym 0 "tmp" CVar [] []; mkSym 1 "val" CVar [] []]
                [(["acc"], [mkSym 2 "VAL" CVar [] []; mkSym 3 "acc" CVar [] []]); (["val"], [mkSym 4 "Tmp" CVar [] []])])
  = Some ["tmp"; "val"; "VAL_1"; "acc"; "Tmp_1"].
Proof. vm_compute. reflexivity. Qed.
