(* C04 -- the written declarations are valid (each entity once, declared before use): proved under
   a sufficient condition on the table, refuted in general for the faithful model of gen_decls. *)
From Coq Require Import List Arith Bool Lia Permutation String.
Import ListNotations.
From PV Require Import C03.Names C03.Decls C03.OrderProofs C03.DeclProofs.
Open Scope list_scope.

(* ------------------------------------------------------------ before_use facts *)
Lemma forallb_ext' {A} (f g : A -> bool) l : (forall x, f x = g x) -> forallb f l = forallb g l.
Proof. intro H. induction l as [|a l IH]; simpl; [reflexivity | rewrite H, IH; reflexivity]. Qed.

Lemma before_use_ext : forall dn l seen seen', (forall x, In x seen <-> In x seen') ->
                                               before_use dn seen l = before_use dn seen' l.
Proof.
  intros dn l; induction l as [|d l IH]; intros seen seen' H; simpl; [reflexivity|].
  f_equal.
  - apply forallb_ext'. intro x. rewrite (mem_nat_ext seen seen' H). reflexivity.
  - apply IH. intro x. simpl. rewrite H. tauto.
Qed.

Lemma before_use_app : forall dn a b seen,
    before_use dn seen (a ++ b) = before_use dn seen a && before_use dn (rev (ids a) ++ seen) b.
Proof.
  intros dn a; induction a as [|d a IH]; intros b seen; simpl; [reflexivity|].
  rewrite IH, <- andb_assoc. do 2 f_equal.
  apply before_use_ext. intro x. rewrite <- app_assoc. simpl. tauto.
Qed.

Lemma before_use_mono : forall dn l seen seen', before_use dn seen l = true ->
    (forall x, In x seen -> In x seen') -> before_use dn seen' l = true.
Proof.
  intros dn l; induction l as [|d l IH]; intros seen seen' H Hm; simpl in *; [reflexivity|].
  apply andb_prop in H as [H1 H2]. apply andb_true_intro. split.
  - rewrite forallb_forall in *. intros x Hx. specialize (H1 x Hx).
    apply orb_prop in H1 as [H1|H1]; [rewrite H1; reflexivity|].
    apply orb_true_intro. right. apply mem_nat_In, Hm, mem_nat_In, H1.
  - eapply IH; eauto. intros x [Hx|Hx]; [left; exact Hx | right; auto].
Qed.

(* the constants section: the dependency sort makes it valid, provided the inputs computed by
   _gen_parameter_decls cover every constant a constant's declaration mentions *)
Lemma consts_before_use : forall dn cn cs seen0 dcl,
    cvalid cn dcl cs = true ->
    (forall c r, In c cs -> In r (s_refs c) -> In r dn -> In r seen0 \/ (In r cn /\ In r (s_deps c))) ->
    forall seen, (forall x, In x seen0 \/ In x dcl -> In x seen) -> before_use dn seen cs = true.
Proof.
  intros dn cn cs; induction cs as [|c cs IH]; intros seen0 dcl Hv Hr seen Hs; simpl; [reflexivity|].
  simpl in Hv. apply andb_prop in Hv as [Hv1 Hv2]. apply andb_true_intro. split.
  - apply forallb_forall. intros r Hr1. destruct (mem_nat r dn) eqn:Ed; [|reflexivity]. simpl.
    apply mem_nat_In. apply Hs.
    destruct (Hr c r (or_introl eq_refl) Hr1 (proj1 (mem_nat_In _ _) Ed)) as [H|[H1 H2]]; [left; exact H|].
    right. eapply subset_spec; [exact Hv1|]. unfold ldeps. apply filter_In. split; [exact H2 | apply mem_nat_In, H1].
  - apply (IH seen0 (s_id c :: dcl) Hv2).
    + intros c' r Hc'. apply Hr. right. exact Hc'.
    + intros x [Hx|[Hx|Hx]]; [right; apply Hs; left; exact Hx | left; exact Hx | right; apply Hs; right; exact Hx].
Qed.

Lemma count_nat_notin : forall x l, ~ In x l -> count_nat x l = 0.
Proof.
  intros x l; induction l as [|y l IH]; intros H; simpl; [reflexivity|].
  destruct (Nat.eqb_spec x y) as [E|E]; [exfalso; apply H; left; auto|]. apply IH. intro Hx. apply H. right. exact Hx.
Qed.

Lemma count_nat_nodup : forall l x, NoDup l -> In x l -> count_nat x l = 1.
Proof.
  induction l as [|y l IH]; intros x Hn Hx; [destruct Hx|].
  inversion Hn as [|? ? Hy Hl]; subst. simpl. destruct (Nat.eqb_spec x y) as [E|E].
  - subst. rewrite count_nat_notin by exact Hy. reflexivity.
  - destruct Hx as [Hx|Hx]; [congruence|]. simpl. apply IH; assumption.
Qed.

(* ----------------------------------------------------------- the safe condition *)
(* [dn] = ids of all declared symbols.  Sections 1, 3, 4, 5 keep table order, so they are fine when
   each of them, taken in table order after the sections before it, has no use before declaration;
   for the constants we ask that every locally declared symbol a constant mentions is either in
   section 1 or is a constant that _gen_parameter_decls lists among its inputs. *)
Definition safe (t : list sym) : Prop :=
  let dn := ids (filter declarable t) in
  let R := sect CRoutine t in let C := sect CConst t in let A := sect CArg t in
  let T := sect CType t in let V := sect CVar t in
  before_use dn [] R = true /\
  (forall c r, In c C -> In r (s_refs c) -> In r dn -> In r (ids R) \/ (In r (ids C) /\ In r (s_deps c))) /\
  before_use dn (ids C ++ ids R) A = true /\
  before_use dn (ids A ++ ids C ++ ids R) T = true /\
  before_use dn (ids T ++ ids A ++ ids C ++ ids R) V = true.

Lemma in_rev_app : forall (a b : list nat) x, In x (rev a ++ b) <-> In x (a ++ b).
Proof. intros. rewrite !in_app_iff, <- in_rev. tauto. Qed.

Theorem decls_ordered_partial_ : forall t l,
    NoDup (ids t) -> gen_decls t = Some l -> safe t -> decl_valid l = true.
Proof.
  intros t l Hn H [HR [HC [HA [HT HV]]]].
  pose proof (gen_decls_perm _ _ H) as P.
  assert (Hnl : NoDup (ids l)).
  { eapply NoDup_ids_perm; [apply Permutation_sym; exact P | apply NoDup_ids_filter; exact Hn]. }
  assert (Edn : forall x, In x (ids l) <-> In x (ids (filter declarable t))).
  { intro x. split; apply Permutation_in; [apply ids_perm, P | apply ids_perm, Permutation_sym, P]. }
  unfold decl_valid. apply andb_true_intro. split.
  - apply forallb_forall. intros d Hd. apply Nat.eqb_eq. apply count_nat_nodup; [exact Hnl | apply in_map; exact Hd].
  - destruct (gen_decls_sections _ _ H) as [cs [Ec El]].
    pose proof (order_consts_perm _ _ Ec) as Pc.
    assert (Eic : forall x, In x (ids cs) <-> In x (ids (sect CConst t))).
    { intro x. split; apply Permutation_in; [apply ids_perm, Pc | apply ids_perm, Permutation_sym, Pc]. }
    assert (Hdn : forall l0 seen, before_use (ids l) seen l0 = before_use (ids (filter declarable t)) seen l0).
    { intros l0; induction l0 as [|d l0 IH0]; intros seen; simpl; [reflexivity|].
      rewrite IH0. f_equal. apply forallb_ext'. intro x. rewrite (mem_nat_ext _ _ Edn). reflexivity. }
    rewrite Hdn. subst l. rewrite !before_use_app. rewrite HR. simpl.
    repeat (apply andb_true_intro; split).
    + apply (consts_before_use _ (ids (sect CConst t)) cs (ids (sect CRoutine t)) []).
      * eapply order_go_valid; eauto.
      * intros c r Hc. apply HC. eapply Permutation_in; [exact Pc | exact Hc].
      * intros x [Hx|[]]. apply in_rev_app. rewrite app_nil_r. exact Hx.
    + eapply before_use_mono; [exact HA|]. intros x Hx.
      apply in_rev_app. apply in_app_or in Hx as [Hx|Hx]; apply in_or_app.
      * left. apply Eic. exact Hx.
      * right. apply in_rev_app. rewrite app_nil_r. exact Hx.
    + eapply before_use_mono; [exact HT|]. intros x Hx.
      apply in_rev_app. apply in_app_or in Hx as [Hx|Hx]; apply in_or_app; [left; exact Hx|right].
      apply in_rev_app. apply in_app_or in Hx as [Hx|Hx]; apply in_or_app; [left; apply Eic; exact Hx|right].
      apply in_rev_app. rewrite app_nil_r. exact Hx.
    + eapply before_use_mono; [exact HV|]. intros x Hx.
      apply in_rev_app. apply in_app_or in Hx as [Hx|Hx]; apply in_or_app; [left; exact Hx|right].
      apply in_rev_app. apply in_app_or in Hx as [Hx|Hx]; apply in_or_app; [left; exact Hx|right].
      apply in_rev_app. apply in_app_or in Hx as [Hx|Hx]; apply in_or_app; [left; apply Eic; exact Hx|right].
      apply in_rev_app. rewrite app_nil_r. exact Hx.
Qed.

(* acyclic dependencies (some valid arrangement of the constants exists) => the writer does not
   fail, and under [safe] what it writes is valid *)
Theorem decls_ordered_acyclic_ : forall t v,
    NoDup (ids t) -> Permutation v (sect CConst t) -> cvalid (ids (sect CConst t)) [] v = true -> safe t ->
    exists l, gen_decls t = Some l /\ decl_valid l = true.
Proof.
  intros t v Hn Pv Hv Hs. destruct (order_consts_complete _ _ Pv Hv) as [cs Ec].
  assert (H : gen_decls t = Some (sect CRoutine t ++ cs ++ sect CArg t ++ sect CType t ++ sect CVar t)).
  { unfold gen_decls. rewrite Ec. reflexivity. }
  eexists. split; [exact H|]. eapply decls_ordered_partial_; eauto.
Qed.

(* ------------------------------------------------------------------ refutations *)
Open Scope string_scope.
(* integer :: b ; integer, parameter :: k = kind(b): the constant is written first *)
Theorem decls_ordered_refuted_const_var_ :
  exists t l, NoDup (ids t) /\ decl_valid t = true /\ gen_decls t = Some l /\ decl_valid l = false.
Proof.
  exists [mkSym 0 "b" CVar [] []; mkSym 1 "k" CConst [0] [0]]. eexists.
  split; [repeat constructor; simpl; intuition discriminate|].
  split; [vm_compute; reflexivity|]. split; vm_compute; reflexivity.
Qed.

(* type :: tt ... ; type(tt), intent(inout) :: x: the argument is written before the type *)
Theorem decls_ordered_refuted_arg_type_ :
  exists t l, NoDup (ids t) /\ decl_valid t = true /\ gen_decls t = Some l /\ decl_valid l = false.
Proof.
  exists [mkSym 0 "tt" CType [] []; mkSym 1 "x" CArg [] [0]]. eexists.
  split; [repeat constructor; simpl; intuition discriminate|].
  split; [vm_compute; reflexivity|]. split; vm_compute; reflexivity.
Qed.

(* array bounds of a constant are not among the inputs _gen_parameter_decls computes: with the
   table order [a = y; arr(a) = 0; y = 2] the sort emits arr before a *)
Theorem decls_ordered_refuted_shape_ :
  exists t l, NoDup (ids t) /\ gen_decls t = Some l /\ decl_valid l = false /\ ids l = [1; 2; 0]
              /\ exists v, Permutation v t /\ decl_valid v = true.
Proof.
  exists [mkSym 0 "a" CConst [2] [2]; mkSym 1 "arr" CConst [] [0]; mkSym 2 "y" CConst [] []]. eexists.
  split; [repeat constructor; simpl; intuition discriminate|].
  split; [vm_compute; reflexivity|]. split; [vm_compute; reflexivity|]. split; [vm_compute; reflexivity|].
  exists [mkSym 2 "y" CConst [] []; mkSym 0 "a" CConst [2] [2]; mkSym 1 "arr" CConst [] [0]].
  split; [|vm_compute; reflexivity].
  apply (Permutation_cons_app [_; _] []). apply Permutation_refl.
Qed.

(* non-vacuity of [safe] *)
Example safe_nonvacuous :
  let t := [ mkSym 0 "x" CVar [] [3; 5]; mkSym 1 "n2" CConst [3] [3]; mkSym 2 "arg" CArg [] [3];
             mkSym 3 "n" CConst [4] [4]; mkSym 4 "wp" CConst [] []; mkSym 5 "tt" CType [] [4];
             mkSym 6 "mod1" CSkip [] []; mkSym 7 "y" CVar [] [1; 0]; mkSym 8 "m" CArg [] []; mkSym 9 "b" CArg [] [8] ] in
  NoDup (ids t) /\ safe t /\ exists l, gen_decls t = Some l /\ ids l = [4; 3; 1; 2; 8; 9; 5; 0; 7] /\ decl_valid l = true.
Proof.
  split; [repeat constructor; simpl; intuition discriminate|]. split.
  - unfold safe. repeat split; try (vm_compute; reflexivity).
    intros c r Hc Hr Hd. vm_compute in Hc.
    destruct Hc as [Hc|[Hc|[Hc|[]]]]; subst c; vm_compute in Hr;
      repeat (destruct Hr as [Hr|Hr]; [subst r; right; vm_compute; intuition|]); destruct Hr.
  - eexists. split; [vm_compute; reflexivity|]. split; vm_compute; reflexivity.
Qed.
