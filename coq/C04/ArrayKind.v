(* C04 -- what _gen_parameter_decls treats as the inputs of a constant, spelled out per declaration
   feature (fortran.py 866-886): symbols read by the initial value, precision symbols of its literals,
   and the precision (kind) of the symbol's own datatype -- `symbol.datatype.precision`, which an
   ArrayType carries as well as a ScalarType, so the kind of an ARRAY-valued parameter is an input.
   Array bounds and the argument of inquiry intrinsics are mentioned ([s_refs]) but are NOT inputs. *)
From Coq Require Import List Arith Bool Permutation String.
Import ListNotations.
From PV Require Import C03.Decls C03.OrderProofs C03.DeclProofs.
Open Scope list_scope.

Record cinfo := mkCinfo {
  ci_array : bool;               (* ArrayType? *)
  ci_kind : option nat;          (* precision symbol of the (element) type *)
  ci_bounds : list nat;          (* symbols in the array bounds *)
  ci_reads : list nat;           (* symbols read by the initial value *)
  ci_litkinds : list nat;        (* precision symbols of literals in the initial value *)
  ci_inquired : list nat }.      (* first arguments of inquiry intrinsics in the initial value *)

Definition kind_list (c : cinfo) : list nat := match ci_kind c with Some k => [k] | None => [] end.
Definition deps_of (c : cinfo) : list nat := ci_reads c ++ ci_litkinds c ++ kind_list c.
Definition refs_of (c : cinfo) : list nat := deps_of c ++ ci_bounds c ++ ci_inquired c.
Definition mk_const (id : nat) (name : string) (c : cinfo) : sym := mkSym id name CConst (deps_of c) (refs_of c).

(* every input of a constant that is itself a local constant is written before it *)
Theorem const_after_inputs_ : forall t l c d,
    gen_decls t = Some l -> In c (sect CConst t) -> In d (s_deps c) -> In d (ids (sect CConst t)) ->
    exists l1 l2, l = l1 ++ c :: l2 /\ In d (ids l1).
Proof.
  intros t l c d H Hc Hd Hk.
  destruct (gen_decls_sections _ _ H) as [cs [Ec El]].
  assert (Hin : In c cs).
  { eapply Permutation_in; [apply Permutation_sym, order_consts_perm; exact Ec | exact Hc]. }
  apply in_split in Hin as [a [b Ecs]].
  pose proof (order_consts_deps_first _ _ _ _ _ Ec Ecs d Hd Hk) as Hd1.
  exists (sect CRoutine t ++ a), (b ++ sect CArg t ++ sect CType t ++ sect CVar t).
  split.
  - rewrite El, Ecs. rewrite <- !app_assoc. reflexivity.
  - unfold ids. rewrite map_app. apply in_or_app. right. exact Hd1.
Qed.

(* C04_array_constant_after_kind *)
Theorem array_constant_after_kind_ : forall t l id name c k,
    gen_decls t = Some l -> ci_array c = true -> ci_kind c = Some k ->
    In (mk_const id name c) t -> In k (ids (sect CConst t)) ->
    exists l1 l2, l = l1 ++ mk_const id name c :: l2 /\ In k (ids l1).
Proof.
  intros t l id name c k H _ Hk Hin Hloc.
  apply (const_after_inputs_ t l (mk_const id name c) k H).
  - apply filter_In. split; [exact Hin | reflexivity].
  - simpl. unfold deps_of, kind_list. rewrite Hk. apply in_or_app. right. apply in_or_app. right. left. reflexivity.
  - exact Hloc.
Qed.

Open Scope string_scope.
(* table order [arr ; x ; wp]: real(kind=wp), dimension(3), parameter :: arr = 1.0_wp comes after wp *)
Example array_kind_nonvacuous :
  let arr := mk_const 0 "arr" (mkCinfo true (Some 2) [] [] [2] []) in
  let t := [arr; mkSym 1 "x" CVar [] [2]; mkSym 2 "wp" CConst [] []] in
  In arr t /\ In 2 (ids (sect CConst t)) /\ option_map ids (gen_decls t) = Some [2; 0; 1].
Proof. cbv zeta. split; [left; reflexivity|]. split; [vm_compute; right; left; reflexivity | vm_compute; reflexivity]. Qed.
