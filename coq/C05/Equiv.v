(* C05 — observational simulation modulo a set X of excluded names, its congruence rules and the
   generic "rewrite a segment in context" theorem used by every transformation.

   sim X p p' : every terminating, non-faulting run of p from s1 is matched by a run of p' from any
   s2 that agrees with s1 off X: same control state, same visible events (prints and PSyData
   events), final stores agree off X.  X holds the DO variables of the transformed loops and the
   variables introduced by the transformation (the documented exclusions of the property). *)
From Coq Require Import List ZArith Bool Lia.
Import ListNotations.
From PV Require Import Fort.Syntax Fort.Sem Fort.Facts Fort.Facts3 C05.Model.
Open Scope Z_scope.

(* the scalar locations of the names in X *)
Definition xlocs (X : list name) : list loc := map (fun x => (x, @nil Z)) X.

Lemma in_xlocs l X : In l (xlocs X) -> In (fst l) X.
Proof. unfold xlocs. rewrite in_map_iff. intros [x [<- H]]. exact H. Qed.
Lemma in_xlocs_scalar x X : In x X -> In (x, @nil Z) (xlocs X).
Proof. intro H. unfold xlocs. apply in_map_iff. exists x. auto. Qed.

Definition agree (X : list name) (s1 s2 : store) : Prop :=
  bnd s2 = bnd s1 /\ forall l, ~ In l (xlocs X) -> val s2 l = val s1 l.

Definition visible (e : event) : bool :=
  match e with Out _ | Enter _ | Leave _ => true | _ => false end.
Definition vis (tr : list event) : list event := filter visible tr.

Lemma vis_app t1 t2 : vis (t1 ++ t2) = vis t1 ++ vis t2.
Proof. apply filter_app. Qed.
Lemma vis_rds ls : vis (rds ls) = [].
Proof. unfold rds. induction ls as [|a ls IH]; [reflexivity|exact IH]. Qed.
Lemma vis_rds_app ls t : vis (rds ls ++ t) = vis t.
Proof. rewrite vis_app, vis_rds. reflexivity. Qed.

Lemma agree_refl X s : agree X s s.
Proof. split; auto. Qed.
Lemma agree_trans X s1 s2 s3 : agree X s1 s2 -> agree X s2 s3 -> agree X s1 s3.
Proof. intros [A1 A2] [B1 B2]. split; [congruence|]. intros l N. rewrite B2, A2; auto. Qed.
Lemma agree_upd X s1 s2 l v : agree X s1 s2 -> agree X (upd s1 l v) (upd s2 l v).
Proof.
  intros [A1 A2]. split; [exact A1|]. intros l' N. rewrite !val_upd.
  destruct (loc_eq_dec l' l); auto.
Qed.
Lemma agree_upd_r X s1 s2 x v : agree X s1 s2 -> In x X -> agree X s1 (upd s2 (x, []) v).
Proof.
  intros [A1 A2] Hx. split; [exact A1|]. intros l' N. rewrite val_upd.
  destruct (loc_eq_dec l' (x, [])) as [->|]; [exfalso; apply N, in_xlocs_scalar, Hx|auto].
Qed.
Lemma agree_upd_l X s1 s2 x v : agree X s1 s2 -> In x X -> agree X (upd s1 (x, []) v) s2.
Proof.
  intros [A1 A2] Hx. split; [exact A1|]. intros l' N. rewrite val_upd.
  destruct (loc_eq_dec l' (x, [])) as [->|]; [exfalso; apply N, in_xlocs_scalar, Hx|auto].
Qed.
Lemma agree_steq_r X s1 s2 s3 : agree X s1 s2 -> steq s2 s3 -> agree X s1 s3.
Proof. intros [A1 A2] [B1 B2]. split; [congruence|]. intros l N. rewrite <- B1. auto. Qed.

(* expressions that do not mention X evaluate alike *)
Definition nomention (X : list name) (ns : list name) : Prop := forall x, In x X -> ~ In x ns.

Lemma nomention_app X a b : nomention X (a ++ b) <-> nomention X a /\ nomention X b.
Proof.
  unfold nomention. split.
  - intro H. split; intros x Hx N; apply (H x Hx); apply in_or_app; auto.
  - intros [H1 H2] x Hx N. apply in_app_or in N as [N|N]; [eapply H1|eapply H2]; eauto.
Qed.
Lemma nomention_incl X a b : incl a b -> nomention X b -> nomention X a.
Proof. intros I H x Hx N. exact (H x Hx (I _ N)). Qed.

Lemma eval_agree X s1 s2 e :
  agree X s1 s2 -> nomention X (enames e) -> eval s2 e = eval s1 e /\ ereads s2 e = ereads s1 e.
Proof.
  intros [A1 A2] N. apply expr_frame; [exact A1|]. intros l Hl. apply A2. intro Hx.
  exact (N _ (in_xlocs _ _ Hx) (ereads_names _ _ _ Hl)).
Qed.

Lemma evals_agree X s1 s2 es :
  agree X s1 s2 -> nomention X (flat_map enames es) ->
  map (eval s2) es = map (eval s1) es /\ flat_map (ereads s2) es = flat_map (ereads s1) es.
Proof.
  intros [A1 A2] N. apply exprs_frame; [exact A1|]. intros l Hl. apply A2. intro Hx.
  exact (N _ (in_xlocs _ _ Hx) (ereads_names_list _ _ _ Hl)).
Qed.

(* ------------------------------------------------------------------------------------------ *)
(** * Simulation *)

Definition sim (X : list name) (p p' : list stmt) : Prop :=
  forall f s1 s2 s1' tr c, agree X s1 s2 -> exec f p s1 = Ok s1' tr c ->
    exists f' s2' tr', exec f' p' s2 = Ok s2' tr' c /\ agree X s1' s2' /\ vis tr' = vis tr.

Lemma sim_trans X a b c : sim X a b -> sim X b c -> sim X a c.
Proof.
  intros H1 H2 f s1 s2 s1' tr ct A E.
  destruct (H1 _ _ _ _ _ _ (agree_refl X s1) E) as [f1 [sa [ta [E1 [A1 V1]]]]].
  destruct (H2 _ _ _ _ _ _ A E1) as [f2 [sb [tb [E2 [A2 V2]]]]].
  exists f2, sb, tb. split; [exact E2|]. split; [|congruence].
  destruct A1 as [B1 B2], A2 as [C1 C2]. split; [congruence|]. intros l N. rewrite C2, B2; auto.
Qed.

(* a program that does not READ any name of X simulates itself *)
Lemma sim_refl X p : nomention X (rnames p) -> sim X p p.
Proof.
  intros N f s1 s2 s1' tr c [A1 A2] E.
  destruct (exec_frame_names f p s1 s1' tr c s2 E A1) as [s2' [R1 [R2 [R3 [R4 R5]]]]].
  { intros l Hl. apply A2. intro Hx. exact (N _ (in_xlocs _ _ Hx) Hl). }
  exists f, s2', tr. split; [exact R1|]. split; [|reflexivity]. split.
  - rewrite R2, A1. symmetry. eapply exec_bnd; exact E.
  - intros l Nl. apply R4. apply A2, Nl.
Qed.

Lemma ok_not_oof s tr c : Ok s tr c <> OutOfFuel.
Proof. discriminate. Qed.

Lemma sim_app X a a' b b' : sim X a a' -> sim X b b' -> sim X (a ++ b) (a' ++ b').
Proof.
  intros Ha Hb f s1 s2 s1' tr c A E.
  apply exec_app_inv in E as [[sa [ta [tb [E1 [E2 ->]]]]]|[Nc E1]].
  - destruct (Ha _ _ _ _ _ _ A E1) as [f1 [s2a [t2a [F1 [A1 V1]]]]].
    destruct (Hb _ _ _ _ _ _ A1 E2) as [f2 [s2b [t2b [F2 [A2 V2]]]]].
    exists (f1 + f2)%nat, s2b, (t2a ++ t2b). split; [eapply exec_app_ok; eassumption|].
    split; [exact A2|]. rewrite !vis_app. congruence.
  - destruct (Ha _ _ _ _ _ _ A E1) as [f1 [s2a [t2a [F1 [A1 V1]]]]].
    exists f1, s2a, t2a. split; [apply exec_app_abrupt; assumption|]. auto.
Qed.

Lemma exec_single_inv f st s s' tr c :
  exec f [st] s = Ok s' tr c -> exists f', f = S f' /\ exec_stmt (exec f') st s = Ok s' tr c.
Proof.
  destruct f as [|f']; [discriminate|]. intro E. exists f'. split; [reflexivity|].
  rewrite exec_cons in E. apply then_run_ok_inv in E as [[s1 [tr1 [tr2 [E1 [E2 ->]]]]]|[_ E1]]; [|exact E1].
  destruct f' as [|f'']; [discriminate|]. cbn [exec] in E2. inversion E2; subst.
  rewrite app_nil_r. exact E1.
Qed.

Lemma exec_single_intro f st s s' tr c :
  exec_stmt (exec f) st s = Ok s' tr c -> exec (S (S f)) [st] s = Ok s' tr c.
Proof.
  intro E. rewrite exec_single.
  assert (M : forall ss s0, exec f ss s0 <> OutOfFuel -> exec (S f) ss s0 = exec f ss s0).
  { intros ss s0 N. apply exec_mono_eq; [lia|exact N]. }
  rewrite (exec_stmt_mono (exec f) (exec (S f)) st s M); [exact E|]. rewrite E. discriminate.
Qed.

Lemma exec_stmt_fuel_mono f f' st s r :
  exec_stmt (exec f) st s = r -> r <> OutOfFuel -> (f <= f')%nat -> exec_stmt (exec f') st s = r.
Proof.
  intros E N L. subst r. apply exec_stmt_mono; [|exact N].
  intros ss s0 N0. apply exec_mono_eq; assumption.
Qed.

Lemma sim_if X c th th' el el' :
  nomention X (enames c) -> sim X th th' -> sim X el el' -> sim X [SIf c th el] [SIf c th' el'].
Proof.
  intros N Ht He f s1 s2 s1' tr ct A E.
  apply exec_single_inv in E as [f0 [-> E]]. cbn [exec_stmt] in E.
  destruct (eval_agree X s1 s2 c A N) as [Ev Er].
  destruct (eval s1 c) as [v|] eqn:Ec; [|discriminate].
  apply prepend_ok_inv in E as [tr0 [E ->]].
  assert (Hb : sim X (if v =? 0 then el else th) (if v =? 0 then el' else th')) by (destruct (v =? 0); assumption).
  destruct (Hb _ _ _ _ _ _ A E) as [f1 [s2' [tr' [F1 [A1 V1]]]]].
  exists (S (S f1)), s2', (rds (ereads s2 c) ++ tr'). split.
  - apply exec_single_intro. cbn [exec_stmt]. rewrite Ev. rewrite F1. reflexivity.
  - split; [exact A1|]. rewrite !vis_rds_app. exact V1.
Qed.

Lemma sim_do_loop X body body' x l t :
  sim X body body' ->
  forall n k f s1 s2 s1' tr c, agree X s1 s2 ->
    do_loop (exec f body) x l t n k s1 = Ok s1' tr c ->
    exists f' s2' tr', do_loop (exec f' body') x l t n k s2 = Ok s2' tr' c /\ agree X s1' s2' /\ vis tr' = vis tr.
Proof.
  intros Hb. induction n as [|n IH]; intros k f s1 s2 s1' tr c A E.
  - cbn [do_loop] in E. inversion E; subst. exists O, (upd s2 (x, []) (l + k * t)), [Wr (x, [])].
    split; [reflexivity|]. split; [apply agree_upd, A|reflexivity].
  - cbn [do_loop] in E.
    destruct (exec f body (upd s1 (x, []) (l + k * t))) as [sa ta ca| |] eqn:Eb; try discriminate.
    destruct (Hb _ _ _ _ _ _ (agree_upd X _ _ (x, []) (l + k * t) A) Eb) as [f1 [sb [tb [F1 [A1 V1]]]]].
    assert (Hcont : forall (cc : ctl), (ca = CNormal \/ ca = CCycle) ->
              prepend (Wr (x, []) :: ta) (do_loop (exec f body) x l t n (k + 1) sa) = Ok s1' tr c ->
              exists f' s2' tr', do_loop (exec f' body') x l t (S n) k s2 = Ok s2' tr' c /\ agree X s1' s2' /\ vis tr' = vis tr).
    { intros _ Hca E'. apply prepend_ok_inv in E' as [tr0 [E' ->]].
      destruct (IH _ _ _ _ _ _ _ A1 E') as [f2 [sc [tc [F2 [A2 V2]]]]].
      exists (Nat.max f1 f2), sc, ((Wr (x, []) :: tb) ++ tc). split.
      - cbn [do_loop]. rewrite (exec_mono _ (Nat.max f1 f2) _ _ _ F1 (ok_not_oof _ _ _)) by lia.
        rewrite (do_loop_mono_exec _ (Nat.max f1 f2) _ _ _ _ _ _ _ _ F2 (ok_not_oof _ _ _)) by lia.
        destruct Hca as [-> | ->]; reflexivity.
      - split; [exact A2|]. rewrite !vis_app. cbn [vis filter visible]. fold (vis tb) (vis ta). congruence. }
    destruct ca.
    + apply (Hcont CNormal); auto.
    + inversion E; subst. exists f1, sb, (Wr (x, []) :: tb). split.
      * cbn [do_loop]. rewrite F1. reflexivity.
      * split; [exact A1|]. cbn [vis filter visible]. exact V1.
    + apply (Hcont CNormal); auto.
    + inversion E; subst. exists f1, sb, (Wr (x, []) :: tb). split.
      * cbn [do_loop]. rewrite F1. reflexivity.
      * split; [exact A1|]. cbn [vis filter visible]. exact V1.
Qed.

Lemma sim_do X x lo hi st body body' :
  nomention X (enames lo ++ enames hi ++ enames st) -> sim X body body' ->
  sim X [SDo x lo hi st body] [SDo x lo hi st body'].
Proof.
  intros N Hb f s1 s2 s1' tr c A E.
  apply nomention_app in N as [N1 N]. apply nomention_app in N as [N2 N3].
  apply exec_do_inv in E as [f0 [l [h [t [tr0 [-> [E1 [E2 [E3 [Nt [E ->]]]]]]]]]]].
  destruct (eval_agree X s1 s2 lo A N1) as [V1 R1]. destruct (eval_agree X s1 s2 hi A N2) as [V2 R2].
  destruct (eval_agree X s1 s2 st A N3) as [V3 R3].
  destruct (sim_do_loop X body body' x l t Hb _ _ _ _ _ _ _ _ A E) as [f1 [s2' [tr' [F1 [A1 W1]]]]].
  exists (S (S f1)), s2', (rds (ereads s2 lo ++ ereads s2 hi ++ ereads s2 st) ++ tr'). split.
  - rewrite (exec_do f1 x lo hi st body' s2 l h t) by congruence.
    rewrite (do_loop_mono_exec _ (S f1) _ _ _ _ _ _ _ _ F1 (ok_not_oof _ _ _)) by lia. reflexivity.
  - split; [exact A1|]. rewrite !vis_rds_app. exact W1.
Qed.

Lemma sim_region X r body body' : sim X body body' -> sim X [SRegion r body] [SRegion r body'].
Proof.
  intros Hb f s1 s2 s1' tr c A E. apply exec_single_inv in E as [f0 [-> E]]. cbn [exec_stmt] in E.
  destruct (exec f0 body s1) as [sa ta ca| |] eqn:Eb; try discriminate. inversion E; subst.
  destruct (Hb _ _ _ _ _ _ A Eb) as [f1 [sb [tb [F1 [A1 V1]]]]].
  exists (S (S f1)), sb, (Enter r :: tb ++ match c with CNormal => [Leave r] | _ => [] end). split.
  - apply exec_single_intro. cbn [exec_stmt]. rewrite F1. reflexivity.
  - split; [exact A1|]. cbn [vis filter visible]. fold (vis (tb ++ match c with CNormal => [Leave r] | _ => [] end)).
    fold (vis (ta ++ match c with CNormal => [Leave r] | _ => [] end)). rewrite !vis_app. congruence.
Qed.

Lemma sim_dir X d body body' : sim X body body' -> sim X [SDir d body] [SDir d body'].
Proof.
  intros Hb f s1 s2 s1' tr c A E. apply exec_single_inv in E as [f0 [-> E]]. cbn [exec_stmt] in E.
  destruct (Hb _ _ _ _ _ _ A E) as [f1 [sb [tb [F1 [A1 V1]]]]].
  exists (S (S f1)), sb, tb. split; [|auto]. apply exec_single_intro. exact F1.
Qed.

(* ------------------------------------------------------------------------------------------ *)
(** * Rewriting a segment in context *)

Lemma nth_error_split_list {A} (l : list A) i a :
  nth_error l i = Some a -> l = firstn i l ++ a :: skipn (S i) l.
Proof.
  revert i. induction l as [|b l IH]; intros [|i] H; try discriminate.
  - inversion H; reflexivity.
  - cbn [firstn skipn app]. f_equal. apply IH, H.
Qed.

Lemma rnames_firstn_incl i p : incl (rnames (firstn i p)) (rnames p).
Proof.
  rewrite <- (firstn_skipn i p) at 2. rewrite rnames_app. apply incl_appl, incl_refl.
Qed.
Lemma rnames_skipn_incl i p : incl (rnames (skipn i p)) (rnames p).
Proof.
  rewrite <- (firstn_skipn i p) at 2. rewrite rnames_app. apply incl_appr, incl_refl.
Qed.

(* The context of the segment = the program with the segment deleted: it is computed by a second
   rewriter G that maps the segment to [] (and may refuse: G is where a transformation's [safe]
   condition on the segment is checked). *)

Lemma rw_cons2 n F i j rest' p :
  rw n F (i :: j :: rest') p =
  match nth_error p i with
  | Some (SDo x lo hi st body) =>
      match rw n F (j :: rest') body with
      | Some b => Some (firstn i p ++ SDo x lo hi st b :: skipn (S i) p)
      | None => None
      end
  | Some (SIf c th el) =>
      match j with
      | O => match rw n F rest' th with
             | Some b => Some (firstn i p ++ SIf c b el :: skipn (S i) p)
             | None => None
             end
      | S O => match rw n F rest' el with
               | Some b => Some (firstn i p ++ SIf c th b :: skipn (S i) p)
               | None => None
               end
      | _ => None
      end
  | Some (SRegion r body) =>
      match rw n F (j :: rest') body with
      | Some b => Some (firstn i p ++ SRegion r b :: skipn (S i) p)
      | None => None
      end
  | Some (SDir d body) =>
      match rw n F (j :: rest') body with
      | Some b => Some (firstn i p ++ SDir d b :: skipn (S i) p)
      | None => None
      end
  | _ => None
  end.
Proof. reflexivity. Qed.

Theorem rw_sim X n (F G : list stmt -> option (list stmt)) :
  (forall seg seg' g, F seg = Some seg' -> G seg = Some g -> g = [] /\ sim X seg seg') ->
  forall path p p' p0, rw n F path p = Some p' -> rw n G path p = Some p0 ->
    nomention X (rnames p0) -> sim X p p'.
Proof.
  intros HF.
  assert (GG : forall m path, (length path <= m)%nat -> forall p p' p0,
             rw n F path p = Some p' -> rw n G path p = Some p0 ->
             nomention X (rnames p0) -> sim X p p').
  2:{ intros path. apply (GG (length path)). lia. }
  induction m as [|m IHm]; intros path Hlen p p' p0 E E0 N.
  { destruct path; [discriminate|cbn [length] in Hlen; lia]. }
  destruct path as [|i path]; [discriminate|].
  assert (IH : forall q, (length q <= length path)%nat -> forall p p' p0,
             rw n F q p = Some p' -> rw n G q p = Some p0 ->
             nomention X (rnames p0) -> sim X p p').
  { intros q Hq. apply IHm. cbn [length] in Hlen. lia. }
  clear IHm Hlen.
  destruct path as [|j rest'].
  - cbn [rw] in E, E0. destruct (Nat.ltb (length (skipn i p)) n); [discriminate|].
    destruct (F (firstn n (skipn i p))) as [seg'|] eqn:EF; [|discriminate].
    destruct (G (firstn n (skipn i p))) as [g0|] eqn:EG; [|discriminate].
    destruct (HF _ _ _ EF EG) as [-> Hs].
    inversion E; subst p'. inversion E0; subst p0. cbn [app] in N.
    rewrite rnames_app in N. apply nomention_app in N as [N1 N2].
    rewrite <- (firstn_skipn i p) at 1. rewrite <- (firstn_skipn n (skipn i p)) at 1.
    apply sim_app; [apply sim_refl, N1|]. apply sim_app; [exact Hs|apply sim_refl, N2].
  - rewrite rw_cons2 in E, E0.
    destruct (nth_error p i) as [st|] eqn:En; [|discriminate].
    pose proof (nth_error_split_list _ _ _ En) as Hp.
    assert (Hctx : forall b b' b0 (mk : list stmt -> stmt),
               st = mk b ->
               p' = firstn i p ++ mk b' :: skipn (S i) p ->
               p0 = firstn i p ++ mk b0 :: skipn (S i) p ->
               (nomention X (rnames_stmt (mk b0)) -> sim X [mk b] [mk b']) -> sim X p p').
    { intros b b' b0 mk -> -> -> Hs. rewrite Hp at 1.
      rewrite rnames_app, rnames_cons in N. apply nomention_app in N as [N1 N]. apply nomention_app in N as [N2 N3].
      apply sim_app; [apply sim_refl, N1|].
      change (mk b :: skipn (S i) p) with ([mk b] ++ skipn (S i) p).
      change (mk b' :: skipn (S i) p) with ([mk b'] ++ skipn (S i) p).
      apply sim_app; [apply Hs, N2|apply sim_refl, N3]. }
    destruct st as [x ix e|c th el|x lo hi st body| | | |es|r body|d body]; try discriminate.
    + (* SIf *)
      destruct j as [|[|j]]; try discriminate.
      * destruct (rw n F rest' th) as [b|] eqn:Eb; [|discriminate].
        destruct (rw n G rest' th) as [b0|] eqn:Eb0; [|discriminate].
        injection E as E; injection E0 as E0; subst p' p0.
        apply (Hctx th b b0 (fun z => SIf c z el)); try reflexivity.
        intro M. cbn [rnames_stmt] in M. apply nomention_app in M as [M1 M]. apply nomention_app in M as [M2 M3].
        apply sim_if; [exact M1| |apply sim_refl, M3].
        eapply (IH rest'); [cbn [length]; lia|exact Eb|exact Eb0|exact M2].
      * destruct (rw n F rest' el) as [b|] eqn:Eb; [|discriminate].
        destruct (rw n G rest' el) as [b0|] eqn:Eb0; [|discriminate].
        injection E as E; injection E0 as E0; subst p' p0.
        apply (Hctx el b b0 (fun z => SIf c th z)); try reflexivity.
        intro M. cbn [rnames_stmt] in M. apply nomention_app in M as [M1 M]. apply nomention_app in M as [M2 M3].
        apply sim_if; [exact M1|apply sim_refl, M2|].
        eapply (IH rest'); [cbn [length]; lia|exact Eb|exact Eb0|exact M3].
    + (* SDo *)
      destruct (rw n F (j :: rest') body) as [b|] eqn:Eb; [|discriminate].
      destruct (rw n G (j :: rest') body) as [b0|] eqn:Eb0; [|discriminate].
      injection E as E; injection E0 as E0; subst p' p0.
      apply (Hctx body b b0 (fun z => SDo x lo hi st z)); try reflexivity.
      intro M. cbn [rnames_stmt] in M. rewrite !app_assoc in M. apply nomention_app in M as [M1 M2].
      rewrite <- !app_assoc in M1.
      apply sim_do; [exact M1|]. eapply (IH (j :: rest')); [lia|exact Eb|exact Eb0|exact M2].
    + (* SRegion *)
      destruct (rw n F (j :: rest') body) as [b|] eqn:Eb; [|discriminate].
      destruct (rw n G (j :: rest') body) as [b0|] eqn:Eb0; [|discriminate].
      injection E as E; injection E0 as E0; subst p' p0.
      apply (Hctx body b b0 (fun z => SRegion r z)); try reflexivity.
      intro M. cbn [rnames_stmt] in M. apply sim_region. eapply (IH (j :: rest')); [lia|exact Eb|exact Eb0|exact M].
    + (* SDir *)
      destruct (rw n F (j :: rest') body) as [b|] eqn:Eb; [|discriminate].
      destruct (rw n G (j :: rest') body) as [b0|] eqn:Eb0; [|discriminate].
      injection E as E; injection E0 as E0; subst p' p0.
      apply (Hctx body b b0 (fun z => SDir d z)); try reflexivity.
      intro M. cbn [rnames_stmt] in M. apply sim_dir. eapply (IH (j :: rest')); [lia|exact Eb|exact Eb0|exact M].
Qed.

(* boolean form of [nomention] *)
Definition nomentionb (X ns : list name) : bool := forallb (fun x => negb (mem x ns)) X.

Lemma mem_In x l : mem x l = true <-> In x l.
Proof.
  unfold mem. rewrite existsb_exists. split.
  - intros [y [H E]]. apply Nat.eqb_eq in E. subst; exact H.
  - intro H. exists x. split; [exact H|apply Nat.eqb_refl].
Qed.

Lemma nomentionb_ok X ns : nomentionb X ns = true -> nomention X ns.
Proof.
  unfold nomentionb. rewrite forallb_forall. intros H x Hx N.
  specialize (H x Hx). apply mem_In in N. rewrite N in H. discriminate.
Qed.

(* variant for transformations whose excluded names are all FRESH (not read anywhere in p) *)
Theorem rw_sim_fresh X n (F : list stmt -> option (list stmt)) :
  (forall seg seg', F seg = Some seg' -> nomention X (rnames seg) -> sim X seg seg') ->
  forall path p p', rw n F path p = Some p' -> nomention X (rnames p) -> sim X p p'.
Proof.
  intros HF.
  assert (G : forall m path, (length path <= m)%nat -> forall p p',
             rw n F path p = Some p' -> nomention X (rnames p) -> sim X p p').
  2:{ intros path. apply (G (length path)). lia. }
  induction m as [|m IHm]; intros path Hlen p p' E N.
  { destruct path; [discriminate|cbn [length] in Hlen; lia]. }
  destruct path as [|i path]; [discriminate|].
  assert (IH : forall q, (length q <= length path)%nat -> forall p p',
             rw n F q p = Some p' -> nomention X (rnames p) -> sim X p p').
  { intros q Hq. apply IHm. cbn [length] in Hlen. lia. }
  clear IHm Hlen.
  destruct path as [|j rest'].
  - cbn [rw] in E. destruct (Nat.ltb (length (skipn i p)) n); [discriminate|].
    destruct (F (firstn n (skipn i p))) as [seg'|] eqn:EF; [|discriminate].
    injection E as E; subst p'.
    rewrite <- (firstn_skipn i p) in N. rewrite <- (firstn_skipn n (skipn i p)) in N.
    rewrite !rnames_app in N. apply nomention_app in N as [N1 N]. apply nomention_app in N as [N2 N3].
    rewrite <- (firstn_skipn i p) at 1. rewrite <- (firstn_skipn n (skipn i p)) at 1.
    apply sim_app; [apply sim_refl, N1|]. apply sim_app; [eapply HF; [exact EF|exact N2]|apply sim_refl, N3].
  - rewrite rw_cons2 in E.
    destruct (nth_error p i) as [st|] eqn:En; [|discriminate].
    pose proof (nth_error_split_list _ _ _ En) as Hp.
    assert (Hctx : forall b b' (mk : list stmt -> stmt),
               st = mk b -> p' = firstn i p ++ mk b' :: skipn (S i) p ->
               (nomention X (rnames_stmt (mk b)) -> sim X [mk b] [mk b']) -> sim X p p').
    { intros b b' mk -> -> Hs. rewrite Hp in N. rewrite Hp at 1.
      rewrite rnames_app, rnames_cons in N. apply nomention_app in N as [N1 N]. apply nomention_app in N as [N2 N3].
      apply sim_app; [apply sim_refl, N1|].
      change (mk b :: skipn (S i) p) with ([mk b] ++ skipn (S i) p).
      change (mk b' :: skipn (S i) p) with ([mk b'] ++ skipn (S i) p).
      apply sim_app; [apply Hs, N2|apply sim_refl, N3]. }
    destruct st as [x ix e|c th el|x lo hi st body| | | |es|r body|d body]; try discriminate.
    + destruct j as [|[|j]]; try discriminate.
      * destruct (rw n F rest' th) as [b|] eqn:Eb; [|discriminate]. injection E as E; subst p'.
        apply (Hctx th b (fun z => SIf c z el)); try reflexivity.
        intro M. cbn [rnames_stmt] in M. apply nomention_app in M as [M1 M]. apply nomention_app in M as [M2 M3].
        apply sim_if; [exact M1| |apply sim_refl, M3].
        eapply (IH rest'); [cbn [length]; lia|exact Eb|exact M2].
      * destruct (rw n F rest' el) as [b|] eqn:Eb; [|discriminate]. injection E as E; subst p'.
        apply (Hctx el b (fun z => SIf c th z)); try reflexivity.
        intro M. cbn [rnames_stmt] in M. apply nomention_app in M as [M1 M]. apply nomention_app in M as [M2 M3].
        apply sim_if; [exact M1|apply sim_refl, M2|].
        eapply (IH rest'); [cbn [length]; lia|exact Eb|exact M3].
    + destruct (rw n F (j :: rest') body) as [b|] eqn:Eb; [|discriminate]. injection E as E; subst p'.
      apply (Hctx body b (fun z => SDo x lo hi st z)); try reflexivity.
      intro M. cbn [rnames_stmt] in M. rewrite !app_assoc in M. apply nomention_app in M as [M1 M2].
      rewrite <- !app_assoc in M1.
      apply sim_do; [exact M1|]. eapply (IH (j :: rest')); [lia|exact Eb|exact M2].
    + destruct (rw n F (j :: rest') body) as [b|] eqn:Eb; [|discriminate]. injection E as E; subst p'.
      apply (Hctx body b (fun z => SRegion r z)); try reflexivity.
      intro M. cbn [rnames_stmt] in M. apply sim_region. eapply (IH (j :: rest')); [lia|exact Eb|exact M].
    + destruct (rw n F (j :: rest') body) as [b|] eqn:Eb; [|discriminate]. injection E as E; subst p'.
      apply (Hctx body b (fun z => SDir d z)); try reflexivity.
      intro M. cbn [rnames_stmt] in M. apply sim_dir. eapply (IH (j :: rest')); [lia|exact Eb|exact M].
Qed.
