(* C05 — HoistTrans: soundness under a computable sufficient condition (hoist_sound_partial):
   the loop has literal bounds with trip count >= 1, the hoisted statement is a scalar assignment
   x = e whose right-hand side reads nothing the loop writes (name-level frame of Fort/Facts3), the
   statements before it are plain (no EXIT/CYCLE/RETURN) and do not read x, and x is written nowhere
   else in the body.  Excluded names: none (sim []).  The refutations are in Refuted.v. *)
From Coq Require Import List ZArith Bool Lia.
Import ListNotations.
From PV Require Import Fort.Syntax Fort.Sem Fort.Facts Fort.Facts3 C05.Model C05.Equiv C05.Fuse.
Open Scope Z_scope.

Lemma remove_nth_split {A} n (l : list A) : remove_nth n l = firstn n l ++ skipn (S n) l.
Proof.
  revert l. induction n as [|n IH]; intros [|a l]; try reflexivity.
  cbn [remove_nth firstn skipn app]. rewrite IH. reflexivity.
Qed.

Section Hoist.
  Variables (x y : name) (e : expr) (pre post : list stmt) (s0 : store) (v : Z) (g : nat).
  Let body := pre ++ SAssign x [] e :: post.
  Let body' := pre ++ post.
  Hypothesis Hxy : x <> y.
  Hypothesis Hpre_plain : plain pre = true.
  Hypothesis Hpre_r : ~ In x (rnames pre).
  Hypothesis Hpre_w : ~ In x (wnames pre).
  Hypothesis Hpost_w : ~ In x (wnames post).
  Hypothesis Hey : ~ In y (enames e).
  Hypothesis Hew : forall nm, In nm (enames e) -> ~ In nm (wnames body).
  Hypothesis Hv : eval s0 e = Some v.

  (* the names read by e keep the values they have in s0 *)
  Definition Inv (s : store) : Prop :=
    bnd s = bnd s0 /\ forall l, In (fst l) (enames e) -> val s l = val s0 l.
  (* transformed store: x already holds v, everything else as in the original *)
  Definition Rel (s1 s2 : store) : Prop :=
    bnd s2 = bnd s1 /\ val s2 (x, []) = v /\ forall l, l <> (x, []) -> val s2 l = val s1 l.

  Lemma Inv_eval s : Inv s -> eval s e = Some v.
  Proof.
    intros [B I]. rewrite <- Hv. apply eval_frame; [exact B|].
    intros l Hl. apply I. eapply ereads_names; exact Hl.
  Qed.

  Lemma wnames_body : wnames body = wnames pre ++ x :: wnames post.
  Proof. unfold body. rewrite wnames_app, wnames_cons. reflexivity. Qed.

  Lemma hoist_iteration k s1 s2 sa ta ca :
    Rel s1 s2 -> Inv s1 ->
    exec g body (upd s1 (y, []) k) = Ok sa ta ca ->
    exists sb tb, exec (g + g) body' (upd s2 (y, []) k) = Ok sb tb ca /\
                  steq sa sb /\ val sb (x, []) = v /\ Inv sa /\ vis tb = vis ta.
  Proof.
    intros [RB [Rx Ro]] [IB IV] E.
    assert (Isa : Inv sa).
    { split.
      - rewrite (exec_bnd _ _ _ _ _ _ E). exact IB.
      - intros l Hl. rewrite (exec_unchanged_names _ _ _ _ _ _ l E (Hew _ Hl)).
        rewrite val_upd_other; [apply IV, Hl|]. intro Q. subst l. exact (Hey Hl). }
    unfold body in E. apply exec_app_inv in E as [[sp [tp [tq [Ep [Eq ->]]]]]|[Nc Ep]].
    2:{ destruct (plain_exec _ _ _ _ _ _ Hpre_plain Ep) as [-> _]. contradiction. }
    apply exec_cons_inv in Eq as [[sq [tq1 [tq2 [Ea [Eq ->]]]]]|[Nc Ea]].
    2:{ apply exec_single_inv in Ea as [f' [_ Ea]]. cbn [exec_stmt map opt_all] in Ea.
        destruct (eval sp e); [|discriminate]. inversion Ea; subst. contradiction. }
    (* the assignment stores v *)
    assert (Isp : Inv sp).
    { split.
      - rewrite (exec_bnd _ _ _ _ _ _ Ep). exact IB.
      - intros l Hl. rewrite (exec_unchanged_names _ _ _ _ _ _ l Ep).
        + rewrite val_upd_other; [apply IV, Hl|]. intro Q. subst l. exact (Hey Hl).
        + intro W. apply (Hew _ Hl). rewrite wnames_body. apply in_or_app. left; exact W. }
    apply exec_single_inv in Ea as [f' [_ Ea]]. cbn [exec_stmt map opt_all] in Ea.
    rewrite (Inv_eval _ Isp) in Ea. inversion Ea; subst sq tq1. clear Ea.
    (* pre on the transformed store *)
    destruct (exec_frame_names g pre _ _ _ _ (upd s2 (y, []) k) Ep) as [sb [Fp [Fb [_ [Fpp Fu]]]]].
    { cbn [bnd upd]. exact RB. }
    { intros l Hl. rewrite !val_upd. destruct (loc_eq_dec l (y, [])); [reflexivity|].
      apply Ro. intro Q. subst l. exact (Hpre_r Hl). }
    assert (St : steq (upd sp (x, []) v) sb).
    { split.
      - intro l. rewrite val_upd. destruct (loc_eq_dec l (x, [])) as [->|Nl].
        + rewrite Fu by exact Hpre_w. rewrite val_upd_other by (intro Q; inversion Q; congruence).
          symmetry; exact Rx.
        + symmetry. apply Fpp. rewrite !val_upd. destruct (loc_eq_dec l (y, [])); [reflexivity|]. apply Ro, Nl.
      - cbn [bnd upd]. rewrite Fb. cbn [bnd upd]. rewrite RB. apply (exec_bnd _ _ _ _ _ _ Ep). }
    destruct (exec_steq _ _ _ _ _ _ _ St Eq) as [sb2 [Fq St2]].
    exists sb2, (tp ++ tq2). split; [eapply exec_app_ok; eassumption|]. split; [exact St2|]. split.
    - rewrite (exec_unchanged_names _ _ _ _ _ _ (x, []) Fq Hpost_w).
      rewrite Fu by exact Hpre_w. rewrite val_upd_other by (intro Q; inversion Q; congruence). exact Rx.
    - split; [exact Isa|]. rewrite !vis_app, vis_rds. reflexivity.
  Qed.

  Lemma steq_Rel s1 s2 : steq s1 s2 -> val s2 (x, []) = v -> Rel s1 s2.
  Proof. intros [A B] H. split; [symmetry; exact B|]. split; [exact H|]. intros l _. symmetry. apply A. Qed.

  Lemma Inv_upd_y s k : Inv s -> Inv (upd s (y, []) k).
  Proof.
    intros [B I]. split; [exact B|]. intros l Hl. rewrite val_upd_other; [apply I, Hl|].
    intro Q. subst l. exact (Hey Hl).
  Qed.

  Lemma hoist_loop l t : forall n k s1 s2 s1' tr c,
    Rel s1 s2 -> Inv s1 ->
    do_loop (exec g body) y l t (S n) k s1 = Ok s1' tr c ->
    exists s2' tr', do_loop (exec (g + g) body') y l t (S n) k s2 = Ok s2' tr' c /\
                    steq s1' s2' /\ vis tr' = vis tr.
  Proof.
    induction n as [|n IH]; intros k s1 s2 s1' tr c R I E.
    - cbn [do_loop] in E |- *.
      destruct (exec g body (upd s1 (y, []) (l + k * t))) as [sa ta ca| |] eqn:Eb; try discriminate.
      destruct (hoist_iteration _ _ _ _ _ _ R I Eb) as [sb [tb [Fb [St [Vx [Ia Vt]]]]]]. rewrite Fb.
      destruct ca; inversion E; subst; eexists; eexists; (split; [reflexivity|]);
        (split; [try (apply upd_steq); exact St|]); cbn [vis filter visible app]; rewrite ?vis_app;
        cbn [vis filter visible]; fold (vis tb) (vis ta); rewrite Vt; reflexivity.
    - cbn [do_loop] in E. cbn [do_loop].
      destruct (exec g body (upd s1 (y, []) (l + k * t))) as [sa ta ca| |] eqn:Eb; try discriminate.
      destruct (hoist_iteration _ _ _ _ _ _ R I Eb) as [sb [tb [Fb [St [Vx [Ia Vt]]]]]]. rewrite Fb.
      assert (Hc : forall (Hca : ca = CNormal \/ ca = CCycle),
                 prepend (Wr (y, []) :: ta) (do_loop (exec g body) y l t (S n) (k + 1) sa) = Ok s1' tr c ->
                 exists s2' tr', prepend (Wr (y, []) :: tb) (do_loop (exec (g + g) body') y l t (S n) (k + 1) sb) = Ok s2' tr' c /\
                                 steq s1' s2' /\ vis tr' = vis tr).
      { intros _ E'. apply prepend_ok_inv in E' as [tr0 [E' ->]].
        destruct (IH _ _ _ _ _ _ (steq_Rel _ _ St Vx) Ia E') as [s2' [tr' [F2 [S2 V2]]]].
        exists s2', ((Wr (y, []) :: tb) ++ tr'). split; [rewrite F2; reflexivity|]. split; [exact S2|].
        rewrite !vis_app. cbn [vis filter visible]. fold (vis tb) (vis ta). congruence. }
      destruct ca.
      + apply Hc; auto.
      + inversion E; subst. eexists; eexists. split; [reflexivity|]. split; [exact St|].
        cbn [vis filter visible]. exact Vt.
      + apply Hc; auto.
      + inversion E; subst. eexists; eexists. split; [reflexivity|]. split; [exact St|].
        cbn [vis filter visible]. exact Vt.
  Qed.
End Hoist.

(* ------------------------------------------------------------------------------------------ *)
(** * hoist_sound_partial *)

Definition hoist_safe_local (n : nat) (s : stmt) : bool :=
  match s with
  | SDo y (ELit l) (ELit h) (ELit t) body =>
      match nth_error body n with
      | Some (SAssign x [] e) =>
          negb (t =? 0) && Nat.ltb 0 (trip_count l h t) && negb (Nat.eqb x y) &&
          plain (firstn n body) &&
          negb (mem x (rnames (firstn n body))) && negb (mem x (wnames (firstn n body))) &&
          negb (mem x (wnames (skipn (S n) body))) &&
          negb (mem y (enames e)) && disjointb (enames e) (wnames body)
      | _ => false
      end
  | _ => false
  end.

Lemma agree_nil_steq s1 s2 : agree [] s1 s2 -> steq s1 s2.
Proof. intros [B A]. split; [|symmetry; exact B]. intro l. symmetry. apply A. intros []. Qed.
Lemma steq_agree_nil s1 s2 : steq s1 s2 -> agree [] s1 s2.
Proof. intros [A B]. split; [symmetry; exact B|]. intros l _. symmetry. apply A. Qed.

Lemma hoist_local n s seg' :
  hoist_safe_local n s = true -> hoist_at n s = Some seg' -> sim [] [s] seg'.
Proof.
  intros Hs Ha.
  destruct s as [ | |y lo hi st body| | | | | | ]; try discriminate.
  destruct lo as [l| | | | | ]; try discriminate. destruct hi as [h| | | | | ]; try discriminate.
  destruct st as [t| | | | | ]; try discriminate.
  cbn [hoist_safe_local] in Hs. cbn [hoist_at] in Ha.
  destruct (nth_error body n) as [a|] eqn:En; [|discriminate].
  destruct a as [x ix e| | | | | | | | ]; try discriminate. destruct ix; [|discriminate].
  destruct (hoist_ok n _); [|discriminate]. injection Ha as <-.
  repeat (apply andb_true_iff in Hs as [Hs ?]).
  assert (Nt : t <> 0) by (apply Z.eqb_neq, negb_true_iff; exact Hs).
  assert (Htrip : (0 < trip_count l h t)%nat) by (apply Nat.ltb_lt; assumption).
  assert (Hxy : x <> y) by (apply Nat.eqb_neq, negb_true_iff; assumption).
  set (pre := firstn n body) in *. set (post := skipn (S n) body) in *.
  assert (Hbody : body = pre ++ SAssign x [] e :: post) by (apply nth_error_split_list, En).
  assert (Hpre_r : ~ In x (rnames pre)).
  { intro Hi. apply mem_In in Hi. match goal with H : negb (mem x (rnames pre)) = true |- _ => rewrite Hi in H; discriminate end. }
  assert (Hpre_w : ~ In x (wnames pre)).
  { intro Hi. apply mem_In in Hi. match goal with H : negb (mem x (wnames pre)) = true |- _ => rewrite Hi in H; discriminate end. }
  assert (Hpost_w : ~ In x (wnames post)).
  { intro Hi. apply mem_In in Hi. match goal with H : negb (mem x (wnames post)) = true |- _ => rewrite Hi in H; discriminate end. }
  assert (Hey : ~ In y (enames e)).
  { intro Hi. apply mem_In in Hi. match goal with H : negb (mem y (enames e)) = true |- _ => rewrite Hi in H; discriminate end. }
  assert (Hew : forall nm, In nm (enames e) -> ~ In nm (wnames (pre ++ SAssign x [] e :: post))).
  { rewrite <- Hbody. apply disjointb_ok. assumption. }
  rewrite remove_nth_split. fold pre post.
  intros f s1 s2 s1' tr c A E.
  apply exec_do_inv in E as [f0 [l' [h' [t' [tr0 [-> [E1 [E2 [E3 [_ [E ->]]]]]]]]]]].
  cbn [eval] in E1, E2, E3. injection E1 as <-. injection E2 as <-. injection E3 as <-.
  destruct (trip_count l h t) as [|n0] eqn:Etc; [lia|].
  rewrite Hbody in E.
  (* the value of e: taken from the first iteration of the original run *)
  assert (Hv : exists v, eval s1 e = Some v).
  { cbn [do_loop] in E.
    destruct (exec (S f0) (pre ++ SAssign x [] e :: post) (upd s1 (y, []) (l + 0 * t))) as [sa ta ca| |] eqn:Eb;
      try discriminate.
    apply exec_app_inv in Eb as [[sp [tp [tq [Ep [Eq _]]]]]|[Nc Ep]].
    2:{ destruct (plain_exec _ _ _ _ _ _ ltac:(eassumption) Ep) as [-> _]. contradiction. }
    assert (Ev : exists v, eval sp e = Some v).
    { apply exec_cons_inv in Eq as [[sq [tq1 [tq2 [Ea _]]]]|[_ Ea]];
        apply exec_single_inv in Ea as [f' [_ Ea]]; cbn [exec_stmt map opt_all] in Ea;
        destruct (eval sp e) as [v|]; try discriminate; eauto. }
    destruct Ev as [v Ev]. exists v. rewrite <- Ev. symmetry. apply eval_frame.
    - rewrite (exec_bnd _ _ _ _ _ _ Ep). reflexivity.
    - intros l0 Hl. apply ereads_names in Hl. rewrite (exec_unchanged_names _ _ _ _ _ _ l0 Ep).
      + apply val_upd_other. intro Q. subst l0. exact (Hey Hl).
      + intro W. apply (Hew _ Hl). rewrite wnames_app. apply in_or_app. left; exact W. }
  destruct Hv as [v Hv].
  apply agree_nil_steq in A.
  assert (Hv2 : eval s2 e = Some v) by (rewrite (proj1 (eval_steq s1 s2 e A)); exact Hv).
  destruct (hoist_loop x y e pre post s1 v (S f0) Hxy ltac:(assumption) Hpre_r Hpre_w Hpost_w Hey Hew Hv
              l t n0 0 s1 (upd s2 (x, []) v) s1' tr0 c) as [s2' [tr' [F2 [S2 V2]]]].
  { destruct A as [A B]. split; [cbn [bnd upd]; symmetry; exact B|]. split; [apply val_upd_same|].
    intros l0 Nl. rewrite val_upd_other by exact Nl. symmetry. apply A. }
  { split; [reflexivity|]. intros; reflexivity. }
  { exact E. }
  pose proof (exec_assign 0 x [] e s2 [] v eq_refl Hv2) as Ea.
  pose proof (exec_do (f0 + S f0) y (ELit l) (ELit h) (ELit t) (pre ++ post) (upd s2 (x, []) v) l h t
                eq_refl eq_refl eq_refl Nt) as Ed.
  rewrite Etc in Ed. change (S (f0 + S f0)) with (S f0 + S f0)%nat in Ed. rewrite F2 in Ed. cbn [prepend] in Ed.
  eexists. eexists. eexists. split; [eapply (exec_cons_ok 2); [exact Ea|exact Ed]|].
  split; [apply steq_agree_nil, S2|].
  rewrite !vis_app, !vis_rds. cbn [vis filter visible app]. exact V2.
Qed.

Definition hoist_guard (n : nat) (seg : list stmt) : option (list stmt) :=
  match seg with [s] => if hoist_safe_local n s then Some [] else None | _ => None end.

Definition hoist_safe (path : list nat) (p : list stmt) : bool :=
  match rev path with
  | n :: rl => match rw 1 (hoist_guard n) (rev rl) p with Some _ => true | None => false end
  | [] => false
  end.

Theorem hoist_sound_partial path p p' :
  hoist_safe path p = true -> hoist_apply path p = Some p' -> sim [] p p'.
Proof.
  unfold hoist_safe, hoist_apply, rw1. intros Hs Ha.
  destruct (rev path) as [|n rl]; [discriminate|].
  destruct (rw 1 (hoist_guard n) (rev rl) p) as [p0|] eqn:E0; [|discriminate].
  eapply rw_sim; [|exact Ha|exact E0|intros z []].
  intros seg seg' g0 HF HG. destruct seg as [|s [|s2 seg]]; try discriminate.
  cbn [hoist_guard] in HG. destruct (hoist_safe_local n s) eqn:Es; [|discriminate].
  injection HG as <-. split; [reflexivity|]. apply (hoist_local n); assumption.
Qed.

(* non-vacuity:  do i = 1, 3 { b(i) = 2; s = n + 1; a(i) = s } *)
Definition hoist_example : list stmt :=
  [SDo 0%nat (ELit 1) (ELit 3) (ELit 1)
     [SAssign 11%nat [EVar 0%nat] (ELit 2);
      SAssign 4%nat [] (EBin Add (EVar 2%nat) (ELit 1));
      SAssign 10%nat [EVar 0%nat] (EVar 4%nat)]].

Example hoist_nonvacuous :
  hoist_safe [0%nat; 1%nat] hoist_example = true /\
  hoist_apply [0%nat; 1%nat] hoist_example =
  Some [SAssign 4%nat [] (EBin Add (EVar 2%nat) (ELit 1));
        SDo 0%nat (ELit 1) (ELit 3) (ELit 1)
          [SAssign 11%nat [EVar 0%nat] (ELit 2); SAssign 10%nat [EVar 0%nat] (EVar 4%nat)]].
Proof. split; reflexivity. Qed.
