(* C05 — faithful Gallina model of validate/apply of the eight generic loop transformations of
   src/psyclone/psyir/transformations (as the code is today, including its defects), over the shared
   MiniFortran syntax.  [None] = the transformation refuses (TransformationError).
   No proofs in this file (BUILDING.md): theorems are in the other files of coq/C05.

   Anchors (file : function):
     loop_fuse_trans.py : LoopFuseTrans.validate/_validate_written_scalar/_validate_written_array/apply
     loop_swap_trans.py : LoopSwapTrans.validate/apply          chunk_loop_trans.py : ChunkLoopTrans.validate/apply
     loop_tiling_2d_trans.py : LoopTiling2DTrans.validate/apply hoist_trans.py : HoistTrans.validate/_validate_dependencies/apply
     hoist_loop_bound_expr_trans.py : HoistLoopBoundExprTrans.apply
     replace_induction_variables_trans.py : _is_induction_variable/apply
     fold_conditional_return_expressions_trans.py : apply
   The access lists mirror VariablesAccessInfo (Assignment: rhs, lhs indices, lhs write; Loop: variable
   WRITE, READ, start, stop, step, body; IfBlock: condition, then, else; inquiry intrinsics skip their first
   argument; EXIT/CYCLE are CodeBlocks without accesses). *)
From Coq Require Import List ZArith Bool.
Import ListNotations.
From PV Require Import Fort.Syntax.
Open Scope Z_scope.

(* ------------------------------------------------------------------------------------------ *)
(** * Decidable equality of syntax *)

Definition binop_eqb (a b : binop) : bool :=
  match a, b with
  | Add, Add | Sub, Sub | Mul, Mul | Div, Div | Pow, Pow | Eq, Eq | Ne, Ne | Lt, Lt | Le, Le
  | Gt, Gt | Ge, Ge | And, And | Or, Or => true
  | _, _ => false
  end.
Definition unop_eqb (a b : unop) : bool :=
  match a, b with Neg, Neg | Not, Not => true | _, _ => false end.
Definition intr_eqb (a b : intr) : bool :=
  match a, b with
  | IMin, IMin | IMax, IMax | IMod, IMod | IAbs, IAbs | ISign, ISign | ILbound, ILbound
  | IUbound, IUbound | ISize, ISize => true
  | _, _ => false
  end.

Fixpoint expr_eqb (a b : expr) : bool :=
  let fix go (l1 l2 : list expr) : bool :=
    match l1, l2 with
    | [], [] => true
    | u :: l1', v :: l2' => expr_eqb u v && go l1' l2'
    | _, _ => false
    end in
  match a, b with
  | ELit x, ELit y => Z.eqb x y
  | EVar x, EVar y => Nat.eqb x y
  | EIdx x ix, EIdx y iy => Nat.eqb x y && go ix iy
  | EUn o e, EUn o' e' => unop_eqb o o' && expr_eqb e e'
  | EBin o l r, EBin o' l' r' => binop_eqb o o' && expr_eqb l l' && expr_eqb r r'
  | EIntr f xs, EIntr g ys => intr_eqb f g && go xs ys
  | _, _ => false
  end.

Fixpoint exprs_eqb (l1 l2 : list expr) : bool :=
  match l1, l2 with
  | [], [] => true
  | u :: l1', v :: l2' => expr_eqb u v && exprs_eqb l1' l2'
  | _, _ => false
  end.

Fixpoint stmt_eqb (a b : stmt) : bool :=
  let fix go (l1 l2 : list stmt) : bool :=
    match l1, l2 with
    | [], [] => true
    | u :: l1', v :: l2' => stmt_eqb u v && go l1' l2'
    | _, _ => false
    end in
  match a, b with
  | SAssign x ix e, SAssign y iy e' => Nat.eqb x y && exprs_eqb ix iy && expr_eqb e e'
  | SIf c th el, SIf c' th' el' => expr_eqb c c' && go th th' && go el el'
  | SDo x lo hi st body, SDo x' lo' hi' st' body' =>
      Nat.eqb x x' && expr_eqb lo lo' && expr_eqb hi hi' && expr_eqb st st' && go body body'
  | SExit, SExit | SCycle, SCycle | SReturn, SReturn => true
  | SPrint es, SPrint es' => exprs_eqb es es'
  | SRegion r b1, SRegion r' b2 => Nat.eqb r r' && go b1 b2
  | SDir d b1, SDir d' b2 => Nat.eqb d d' && go b1 b2
  | _, _ => false
  end.

Fixpoint stmts_eqb (l1 l2 : list stmt) : bool :=
  match l1, l2 with
  | [], [] => true
  | u :: l1', v :: l2' => stmt_eqb u v && stmts_eqb l1' l2'
  | _, _ => false
  end.

Definition mem (x : name) (l : list name) : bool := existsb (Nat.eqb x) l.

(* ------------------------------------------------------------------------------------------ *)
(** * Names: walk(Reference) and VariablesAccessInfo *)

(* names of all Reference nodes below an expression (Node.walk(Reference)) *)
Fixpoint xnames (e : expr) : list name :=
  match e with
  | ELit _ => []
  | EVar x => [x]
  | EIdx a ix => a :: flat_map xnames ix
  | EUn _ e1 => xnames e1
  | EBin _ l r => xnames l ++ xnames r
  | EIntr _ args => flat_map xnames args
  end.

(* one access: name, is-write, index expressions *)
Definition acc := (name * bool * list expr)%type.
Definition a_name (a : acc) : name := fst (fst a).
Definition a_write (a : acc) : bool := snd (fst a).
Definition a_ix (a : acc) : list expr := snd a.

Definition inquiry (f : intr) : bool :=
  match f with ILbound | IUbound | ISize => true | _ => false end.

Fixpoint acc_expr (e : expr) : list acc :=
  match e with
  | ELit _ => []
  | EVar x => [(x, false, [])]
  | EIdx a ix => flat_map acc_expr ix ++ [(a, false, ix)]
  | EUn _ e1 => acc_expr e1
  | EBin _ l r => acc_expr l ++ acc_expr r
  | EIntr f args =>
      if inquiry f then match args with [] => [] | _ :: r => flat_map acc_expr r end
      else flat_map acc_expr args
  end.

Fixpoint acc_stmt (s : stmt) : list acc :=
  match s with
  | SAssign x ix e => acc_expr e ++ flat_map acc_expr ix ++ [(x, true, ix)]
  | SIf c th el => acc_expr c ++ flat_map acc_stmt th ++ flat_map acc_stmt el
  | SDo x lo hi st body =>
      (x, true, []) :: (x, false, []) :: acc_expr lo ++ acc_expr hi ++ acc_expr st ++ flat_map acc_stmt body
  | SPrint es => flat_map acc_expr es
  | SRegion _ b => flat_map acc_stmt b
  | SDir _ b => flat_map acc_stmt b
  | SExit | SCycle | SReturn => []
  end.
Definition acc_block (ss : list stmt) : list acc := flat_map acc_stmt ss.

Definition anames_e (e : expr) : list name := map a_name (acc_expr e).
Definition anames (ss : list stmt) : list name := map a_name (acc_block ss).
(* names with a WRITE access: assignment targets and DO variables (with multiplicity) *)
Definition wr_names (ss : list stmt) : list name := map a_name (filter a_write (acc_block ss)).

(* EXIT / CYCLE (CodeBlocks) anywhere below *)
Fixpoint has_cb_stmt (s : stmt) : bool :=
  match s with
  | SExit | SCycle => true
  | SIf _ th el => existsb has_cb_stmt th || existsb has_cb_stmt el
  | SDo _ _ _ _ b => existsb has_cb_stmt b
  | SRegion _ b => existsb has_cb_stmt b
  | SDir _ b => existsb has_cb_stmt b
  | _ => false
  end.
Definition has_cb (ss : list stmt) : bool := existsb has_cb_stmt ss.

(* ------------------------------------------------------------------------------------------ *)
(** * Substitution of a scalar reference *)

Fixpoint esubst (x : name) (r : expr) (e : expr) : expr :=
  match e with
  | ELit _ => e
  | EVar y => if Nat.eqb y x then r else e
  | EIdx a ix => EIdx a (map (esubst x r) ix)
  | EUn o e1 => EUn o (esubst x r e1)
  | EBin o l r' => EBin o (esubst x r l) (esubst x r r')
  | EIntr f args => EIntr f (map (esubst x r) args)
  end.

Fixpoint ssubst (x : name) (r : expr) (s : stmt) : stmt :=
  match s with
  | SAssign y ix e => SAssign y (map (esubst x r) ix) (esubst x r e)
  | SIf c th el => SIf (esubst x r c) (map (ssubst x r) th) (map (ssubst x r) el)
  | SDo y lo hi st b => SDo y (esubst x r lo) (esubst x r hi) (esubst x r st) (map (ssubst x r) b)
  | SPrint es => SPrint (map (esubst x r) es)
  | SRegion k b => SRegion k (map (ssubst x r) b)
  | SDir k b => SDir k (map (ssubst x r) b)
  | SExit | SCycle | SReturn => s
  end.

(* ------------------------------------------------------------------------------------------ *)
(** * Rewriting a segment of [n] statements at a statement path *)

(* path: an index selects a statement of the current block; below a DO / region / directive the path
   continues in its body; below an IF the next index selects the branch (0 = then, 1 = else). *)
Fixpoint rw (n : nat) (F : list stmt -> option (list stmt)) (path : list nat) (p : list stmt)
  : option (list stmt) :=
  match path with
  | [] => None
  | [i] =>
      let suf := skipn i p in
      if Nat.ltb (length suf) n then None
      else match F (firstn n suf) with
           | Some seg => Some (firstn i p ++ seg ++ skipn n suf)
           | None => None
           end
  | i :: ((j :: rest') as rest) =>
      match nth_error p i with
      | Some (SDo x lo hi st body) =>
          match rw n F rest body with
          | Some b => Some (firstn i p ++ SDo x lo hi st b :: skipn (S i) p)
          | None => None
          end
      | Some (SIf c th el) =>
          match j with
          | O => match rw n F rest' th with
                 | Some b => Some (firstn i p ++ SIf c b el :: skipn (S i) p)
                 | None => None
                 end
          | S O => match rw n F rest' el with
                   | Some b => Some (firstn i p ++ SIf c th b :: skipn (S i) p)
                   | None => None
                   end
          | _ => None
          end
      | Some (SRegion r body) =>
          match rw n F rest body with
          | Some b => Some (firstn i p ++ SRegion r b :: skipn (S i) p)
          | None => None
          end
      | Some (SDir d body) =>
          match rw n F rest body with
          | Some b => Some (firstn i p ++ SDir d b :: skipn (S i) p)
          | None => None
          end
      | _ => None
      end
  end.

Definition rw1 (F : stmt -> option (list stmt)) : list nat -> list stmt -> option (list stmt) :=
  rw 1 (fun seg => match seg with [s] => F s | _ => None end).

(* ------------------------------------------------------------------------------------------ *)
(** * HoistLoopBoundExprTrans *)

Definition simple_bound (e : expr) : bool :=
  match e with ELit _ | EVar _ | EIdx _ _ => true | _ => false end.

(* n1 n2 n3: the symbols created for start, stop, step (used only for the bounds that are hoisted) *)
Definition hoistbound_at (n1 n2 n3 : name) (s : stmt) : option (list stmt) :=
  match s with
  | SDo x lo hi st body =>
      let pre1 := if simple_bound lo then [] else [SAssign n1 [] lo] in
      let pre2 := if simple_bound hi then [] else [SAssign n2 [] hi] in
      let pre3 := if simple_bound st then [] else [SAssign n3 [] st] in
      Some (pre3 ++ pre2 ++ pre1 ++
            [SDo x (if simple_bound lo then lo else EVar n1) (if simple_bound hi then hi else EVar n2)
                 (if simple_bound st then st else EVar n3) body])
  | _ => None
  end.
Definition hoistbound_apply (n1 n2 n3 : name) := rw1 (hoistbound_at n1 n2 n3).

(* ------------------------------------------------------------------------------------------ *)
(** * ChunkLoopTrans *)

Definition chunk_build (c : Z) (out el : name) (x : name) (lo hi : expr) (t : Z) (body : list stmt) : stmt :=
  let endv := if t >? 0
              then EIntr IMin [EBin Add (EVar out) (EBin Sub (ELit c) (ELit 1)); hi]
              else EIntr IMax [EBin Sub (EVar out) (EBin Add (ELit c) (ELit 1)); hi] in
  SDo out lo hi (ELit (if t >? 0 then c else - c))
      [SAssign el [] endv; SDo x (EVar out) (EVar el) (ELit t) body].

Definition chunk_ok (c : Z) (s : stmt) : bool :=
  match s with
  | SDo x lo hi (ELit t) body =>
      (0 <? c) && negb (Z.abs t >? Z.abs c) && negb (t =? 0) && (c mod Z.abs t =? 0) && negb (has_cb body) &&
      negb (mem x (anames_e lo ++ anames_e hi)) &&
      negb (existsb (fun nm => mem nm (wr_names body)) (x :: anames_e lo ++ anames_e hi))
  | _ => false
  end.

Definition chunk_at (c : Z) (out el : name) (s : stmt) : option (list stmt) :=
  match s with
  | SDo x lo hi (ELit t) body =>
      if chunk_ok c s then Some [chunk_build c out el x lo hi t body] else None
  | _ => None
  end.
Definition chunk_apply (c : Z) (out el : name) := rw1 (chunk_at c out el).

(* ------------------------------------------------------------------------------------------ *)
(** * LoopSwapTrans *)

Definition swap_ok (s : stmt) : bool :=
  match s with
  | SDo x1 lo1 hi1 st1 [SDo x2 lo2 hi2 st2 body] =>
      negb (has_cb body) &&
      negb (mem x2 (xnames lo1 ++ xnames hi1 ++ xnames st1)) &&
      negb (mem x1 (xnames lo2 ++ xnames hi2 ++ xnames st2))
  | _ => false
  end.

Definition swap_at (s : stmt) : option (list stmt) :=
  match s with
  | SDo x1 lo1 hi1 st1 [SDo x2 lo2 hi2 st2 body] =>
      if swap_ok s then Some [SDo x2 lo2 hi2 st2 [SDo x1 lo1 hi1 st1 body]] else None
  | _ => None
  end.
Definition swap_apply := rw1 swap_at.

(* ------------------------------------------------------------------------------------------ *)
(** * LoopTiling2DTrans = validate(swap, chunk outer, chunk inner); chunk outer; chunk inner; swap *)

Definition tile_at (c : Z) (oo oe io ie : name) (s : stmt) : option (list stmt) :=
  match s with
  | SDo x1 lo1 hi1 (ELit t1) [SDo x2 lo2 hi2 (ELit t2) body as inner] =>
      if swap_ok s && chunk_ok c s && chunk_ok c inner then
        match chunk_build c io ie x2 lo2 hi2 t2 body with
        | SDo io' lo2' hi2' c2 inner_body =>
            (* do oo { oe = ..; do io { do x1 = oo, oe { ie = ..; do x2 } } } *)
            let endo := if t1 >? 0
                        then EIntr IMin [EBin Add (EVar oo) (EBin Sub (ELit c) (ELit 1)); hi1]
                        else EIntr IMax [EBin Sub (EVar oo) (EBin Add (ELit c) (ELit 1)); hi1] in
            Some [SDo oo lo1 hi1 (ELit (if t1 >? 0 then c else - c))
                      [SAssign oe [] endo;
                       SDo io' lo2' hi2' c2 [SDo x1 (EVar oo) (EVar oe) (ELit t1) inner_body]]]
        | _ => None
        end
      else None
  | _ => None
  end.
Definition tile_apply (c : Z) (oo oe io ie : name) := rw1 (tile_at c oo oe io ie).

(* ------------------------------------------------------------------------------------------ *)
(** * HoistTrans: the assignment is statement [n] of the body of the loop at the path *)

Fixpoint remove_nth {A} (n : nat) (l : list A) : list A :=
  match n, l with
  | _, [] => []
  | O, _ :: r => r
  | S n', a :: r => a :: remove_nth n' r
  end.

Definition hoist_ok (n : nat) (s : stmt) : bool :=
  match s with
  | SDo x lo hi st body =>
      match nth_error body n with
      | Some (SAssign y ix e) =>
          let rd := anames_e e ++ flat_map anames_e ix in
          negb (mem y rd) &&                                                    (* read and written *)
          negb (mem y (x :: anames_e lo ++ anames_e hi ++ anames_e st ++ anames (firstn n body))) &&
                                                                                 (* accessed before *)
          (count_occ Nat.eq_dec (x :: wr_names body) y <=? 1)%nat &&             (* additional write *)
          forallb (fun nm => negb (mem nm (x :: wr_names body))) rd              (* reads a written variable *)
      | _ => false
      end
  | _ => false
  end.

Definition hoist_at (n : nat) (s : stmt) : option (list stmt) :=
  match s with
  | SDo x lo hi st body =>
      match nth_error body n with
      | Some a => if hoist_ok n s then Some [a; SDo x lo hi st (remove_nth n body)] else None
      | None => None
      end
  | _ => None
  end.
(* path = path of the loop ++ [n] *)
Definition hoist_apply (path : list nat) (p : list stmt) : option (list stmt) :=
  match rev path with
  | n :: rl => rw1 (hoist_at n) (rev rl) p
  | [] => None
  end.

(* ------------------------------------------------------------------------------------------ *)
(** * ReplaceInductionVariablesTrans *)

Definition is_induction (body : list stmt) (i : nat) (v : name) (rhs : expr) : bool :=
  forallb (fun nm => negb (mem nm (wr_names body))) (anames_e rhs) &&
  negb (mem v (anames (firstn i body))) &&
  negb (mem v (wr_names (skipn (S i) body))).

Fixpoint ind_loop (fuel : nat) (x : name) (lo hi st : expr) (body : list stmt) (i : nat) (post : list stmt)
  : list stmt :=
  match fuel with
  | O => SDo x lo hi st body :: post
  | S f =>
      match nth_error body i with
      | None => SDo x lo hi st body :: post
      | Some (SAssign v [] rhs) =>
          if is_induction body i v rhs then
            let st' := esubst v rhs st in
            ind_loop f x (esubst v rhs lo) (esubst v rhs hi) st' (map (ssubst v rhs) (remove_nth i body)) i
                     (SAssign v [] (esubst x (EBin Sub (EVar x) st') rhs) :: post)
          else ind_loop f x lo hi st body (S i) post
      | Some _ => ind_loop f x lo hi st body (S i) post
      end
  end.

Definition induction_at (s : stmt) : option (list stmt) :=
  match s with
  | SDo x lo hi st body => Some (ind_loop (length body) x lo hi st body 0 [])
  | _ => None
  end.
Definition induction_apply := rw1 induction_at.

(* ------------------------------------------------------------------------------------------ *)
(** * FoldConditionalReturnExpressionsTrans (on the statements of the Routine) *)

Fixpoint fold_apply (p : list stmt) : list stmt :=
  match p with
  | [] => []
  | SIf c (SReturn :: _) [] :: rest => [SIf (EUn Not c) (fold_apply rest) []]
  | s :: rest => s :: fold_apply rest
  end.

(* ------------------------------------------------------------------------------------------ *)
(** * LoopFuseTrans *)

Definition all_reads (l : list acc) : bool := forallb (fun a => negb (a_write a)) l.
Definition first_is_write (l : list acc) : bool :=
  match l with a :: _ => a_write a | [] => false end.

(* DependencyTools._partition for one loop variable: the subscript positions in which it occurs in
   either access *)
Fixpoint var_positions (v : name) (i1 i2 : list expr) : nat :=
  match i1, i2 with
  | e1 :: r1, e2 :: r2 => ((if mem v (xnames e1) || mem v (xnames e2) then 1 else 0) + var_positions v r1 r2)%nat
  | _, _ => O
  end.

Definition fuse_var_ok (arrs : list name) (v1 : name) (a1 a2 : list acc) (nm : name) : bool :=
  let l1 := filter (fun a => Nat.eqb (a_name a) nm) a1 in
  let l2 := filter (fun a => Nat.eqb (a_name a) nm) a2 in
  match l2 with
  | [] => true                                        (* not in both loops *)
  | _ =>
    if Nat.eqb nm v1 then true
    else if all_reads l1 && all_reads l2 then true
    else if mem nm arrs then
      match l1 ++ l2 with
      | first :: _ => forallb (fun o => Nat.eqb (var_positions v1 (a_ix first) (a_ix o)) 1) (l1 ++ l2)
      | [] => true
      end
    else first_is_write l1 && first_is_write l2
  end.

(* s1, s2: the nodes as given to apply(node1, node2); symeq: the SymbolicMaths.equal oracle *)
Definition fuse_nodes (symeq : expr -> expr -> bool) (arrs : list name) (s1 s2 : stmt) : option stmt :=
  match s1, s2 with
  | SDo v1 lo1 hi1 st1 b1, SDo v2 lo2 hi2 st2 b2 =>
      if negb (symeq lo1 lo2 && symeq hi1 hi2 && symeq st1 st2) then None
      else
        let a1 := acc_stmt s1 in
        let a2 := acc_stmt s2 in
        if negb (Nat.eqb v1 v2) && (mem v2 (map a_name a1) || mem v1 (map a_name a2)) then None
        else if forallb (fuse_var_ok arrs v1 a1 a2) (map a_name a1)
             then Some (SDo v1 lo1 hi1 st1 (b1 ++ (if Nat.eqb v1 v2 then b2 else map (ssubst v2 (EVar v1)) b2)))
             else None
  | _, _ => None
  end.

(* the segment [first; second] in block order; [reversed]: apply(second, first) *)
Definition fuse_seg (symeq : expr -> expr -> bool) (arrs : list name) (reversed : bool) (seg : list stmt)
  : option (list stmt) :=
  match seg with
  | [a; b] => match (if reversed then fuse_nodes symeq arrs b a else fuse_nodes symeq arrs a b) with
              | Some s => Some [s]
              | None => None
              end
  | _ => None
  end.
Definition fuse_apply symeq arrs reversed := rw 2 (fuse_seg symeq arrs reversed).

(* the oracle's answers as a table (correspondence cases) *)
Definition table_eq (tbl : list (expr * expr)) (a b : expr) : bool :=
  existsb (fun pr => expr_eqb a (fst pr) && expr_eqb b (snd pr)) tbl.
