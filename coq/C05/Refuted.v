(* C05 — refutations: the faithful model of the unchanged code ACCEPTS these targets and the transformed
   program is observably different (a location outside the excluded names X ends with another value).
   Each witness is also replayed on the real implementation by props/C05/check.py (known findings). *)
From Coq Require Import List ZArith Bool Lia.
Import ListNotations.
From PV Require Import Fort.Syntax Fort.Sem Fort.Facts C05.Model C05.Equiv.
Open Scope Z_scope.

Definition differ_at (fuel : nat) (p p' : list stmt) (st : store) (l : loc) : bool :=
  match exec fuel p st, exec fuel p' st with
  | Ok s1 _ _, Ok s2 _ _ => negb (val s1 l =? val s2 l)
  | _, _ => false
  end.

Lemma differ_not_sim X fuel p p' st l :
  differ_at fuel p p' st l = true -> ~ In (fst l) X -> ~ sim X p p'.
Proof.
  unfold differ_at. intros D Nl H.
  destruct (exec fuel p st) as [s1 t1 c1| |] eqn:E1; try discriminate.
  destruct (exec fuel p' st) as [s2 t2 c2| |] eqn:E2; try discriminate.
  destruct (H _ _ _ _ _ _ (agree_refl X st) E1) as [f' [s2' [tr' [F [[_ A] _]]]]].
  assert (Q : Ok s2' tr' c1 = Ok s2 t2 c2) by (eapply exec_det; [exact F|exact E2|discriminate|discriminate]).
  inversion Q; subst. rewrite (A l (fun Hx => Nl (in_xlocs _ _ Hx))) in D. rewrite Z.eqb_refl in D. discriminate.
Qed.

Ltac refute fuel st l :=
  split; [vm_compute; reflexivity|];
  apply (differ_not_sim _ fuel _ _ st l); [vm_compute; reflexivity|];
  let H := fresh "H" in cbn [fst In]; intro H; repeat (destruct H as [H|H]; [discriminate|]); exact H.

(* names: i=0 j=1 n=2 m=3 s=4 a=10 b=11 c=12 d=13; introduced: 20.. *)
Notation i_ := 0%nat. Notation j_ := 1%nat. Notation n_ := 2%nat. Notation m_ := 3%nat. Notation s_ := 4%nat.
Notation a_ := 10%nat. Notation b_ := 11%nat. Notation c_ := 12%nat. Notation d_ := 13%nat.
Definition loop1 x lo hi body := SDo x lo hi (ELit 1) body.
Definition sc (x : name) (v : Z) : loc * Z := ((x, []), v).
Definition el1 (a : name) (k v : Z) : loc * Z := ((a, [k]), v).
Definition el2 (a : name) (k1 k2 v : Z) : loc * Z := ((a, [k1; k2]), v).

(* ---- LoopFuseTrans ---- *)
Definition fuse_p_offset : list stmt :=
  [loop1 i_ (ELit 1) (EVar n_) [SAssign a_ [EVar i_] (EVar i_)];
   loop1 i_ (ELit 1) (EVar n_) [SAssign b_ [EVar i_] (EIdx a_ [EBin Add (EVar i_) (ELit 1)])]].

Theorem fuse_refuted : exists p path p',
  fuse_apply expr_eqb [a_; b_; c_; d_] false path p = Some p' /\ ~ sim [i_] p p'.
Proof.
  exists fuse_p_offset, [0%nat]. eexists.
  refute 50%nat (store_of [sc n_ 3; el1 a_ 2 7; el1 a_ 3 8; el1 a_ 4 9] []) (b_, [1]).
Qed.

Definition fuse_p_same : list stmt :=
  [loop1 i_ (ELit 1) (EVar n_) [SAssign a_ [EVar i_] (EVar i_)];
   loop1 i_ (ELit 1) (EVar n_) [SAssign b_ [EVar i_] (EIdx a_ [EVar i_])]].

(* apply(second, first): only abs(position difference) = 1 is tested *)
Theorem fuse_refuted_reversed : exists p path p',
  fuse_apply expr_eqb [a_; b_; c_; d_] true path p = Some p' /\ ~ sim [i_] p p'.
Proof.
  exists fuse_p_same, [0%nat]. eexists.
  refute 50%nat (store_of [sc n_ 3; el1 a_ 1 7; el1 a_ 2 8; el1 a_ 3 9] []) (b_, [1]).
Qed.

Definition fuse_p_exit : list stmt :=
  [loop1 i_ (ELit 1) (EVar n_) [SIf (EBin Gt (EIdx a_ [EVar i_]) (ELit 0)) [SExit] []; SAssign b_ [EVar i_] (ELit 1)];
   loop1 i_ (ELit 1) (EVar n_) [SAssign c_ [EVar i_] (ELit 2)]].

Theorem fuse_refuted_exit : exists p path p',
  fuse_apply expr_eqb [a_; b_; c_; d_] false path p = Some p' /\ ~ sim [i_] p p'.
Proof.
  exists fuse_p_exit, [0%nat]. eexists.
  refute 50%nat (store_of [sc n_ 3; el1 a_ 2 1] []) (c_, [3]).
Qed.

Definition fuse_p_scalar : list stmt :=
  [loop1 i_ (ELit 1) (EVar n_) [SAssign s_ [] (EIdx a_ [EVar i_]); SAssign b_ [EVar i_] (EVar s_)];
   loop1 i_ (ELit 1) (EVar n_) [SIf (EBin Gt (EIdx b_ [EVar i_]) (ELit 0)) [SAssign s_ [] (ELit 2)] [];
                                SAssign c_ [EVar i_] (EVar s_)]].

(* scalar written first in both loops, but conditionally in the second (TODO #641 in the code) *)
Theorem fuse_refuted_conditional_scalar : exists p path p',
  fuse_apply expr_eqb [a_; b_; c_; d_] false path p = Some p' /\ ~ sim [i_] p p'.
Proof.
  exists fuse_p_scalar, [0%nat]. eexists.
  refute 50%nat (store_of [sc n_ 3; el1 a_ 1 (-1); el1 a_ 2 (-2); el1 a_ 3 (-3)] []) (c_, [1]).
Qed.

(* ---- LoopSwapTrans ---- *)
Definition swap_p : list stmt :=
  [loop1 j_ (ELit 1) (EVar n_)
     [loop1 i_ (ELit 1) (EVar m_)
        [SAssign d_ [EVar i_; EVar j_] (EIdx d_ [EBin Add (EVar i_) (ELit 1); EBin Sub (EVar j_) (ELit 1)])]]].

Theorem swap_refuted : exists p path p', swap_apply path p = Some p' /\ ~ sim [j_; i_] p p'.
Proof.
  exists swap_p, [0%nat]. eexists.
  refute 80%nat (store_of [sc n_ 3; sc m_ 3; el2 d_ 2 0 5; el2 d_ 3 1 6; el2 d_ 2 1 7; el2 d_ 3 0 4] []) (d_, [1; 2]).
Qed.

(* ---- ChunkLoopTrans ---- *)
Definition chunk_p (t : Z) (lo hi : expr) : list stmt :=
  [SDo i_ lo hi (ELit t) [SAssign a_ [EVar i_] (EBin Add (EIdx a_ [EVar i_]) (ELit 1))]].

(* (step 2 / chunk size 3 and the loop variable in its own bound are refused since the fix commits on /repo) *)

(* negative step: inner bound out_var - (chunksize + 1): chunks overlap *)
Theorem chunk_refuted_neg : exists p path p',
  chunk_apply 2 20%nat 21%nat path p = Some p' /\ ~ sim [i_; 20%nat; 21%nat] p p'.
Proof.
  exists (chunk_p (-1) (EVar n_) (ELit 1)), [0%nat]. eexists.
  refute 80%nat (store_of [sc n_ 6] []) (a_, [4]).
Qed.

(* ---- LoopTiling2DTrans ---- *)
Theorem tile_refuted : exists p path p',
  tile_apply 2 20%nat 21%nat 22%nat 23%nat path p = Some p' /\ ~ sim [j_; i_; 20%nat; 21%nat; 22%nat; 23%nat] p p'.
Proof.
  exists swap_p, [0%nat]. eexists.
  refute 200%nat (store_of [sc n_ 4; sc m_ 4; el2 d_ 2 0 5; el2 d_ 3 1 6; el2 d_ 2 1 7; el2 d_ 3 0 4; el2 d_ 4 0 9; el2 d_ 5 2 3] []) (d_, [2; 2]).
Qed.

(* ---- HoistTrans ---- *)
Definition hoist_p : list stmt :=
  [loop1 i_ (ELit 1) (EVar n_) [SAssign s_ [] (ELit 5); SAssign a_ [EVar i_] (EVar s_)]].

Theorem hoist_refuted_zero_trip : exists p path p', hoist_apply path p = Some p' /\ ~ sim [] p p'.
Proof.
  exists hoist_p, [0%nat; 0%nat]. eexists.
  refute 50%nat (store_of [sc n_ 0; sc s_ 1] []) (s_, @nil Z).
Qed.

Definition hoist_p_exit : list stmt :=
  [loop1 i_ (ELit 1) (EVar n_) [SIf (EBin Gt (EIdx a_ [EVar i_]) (ELit 0)) [SExit] []; SAssign s_ [] (ELit 5)]].

Theorem hoist_refuted_early_exit : exists p path p', hoist_apply path p = Some p' /\ ~ sim [] p p'.
Proof.
  exists hoist_p_exit, [0%nat; 1%nat]. eexists.
  refute 50%nat (store_of [sc n_ 3; el1 a_ 1 1; sc s_ 1] []) (s_, @nil Z).
Qed.

(* ---- ReplaceInductionVariablesTrans ---- *)
Definition ind_p (hi : expr) : list stmt :=
  [loop1 i_ (ELit 1) hi [SAssign m_ [] (EBin Sub (EVar i_) (ELit 1)); SAssign a_ [EVar i_] (EVar m_)]].

Theorem induction_refuted_zero_trip : exists p path p', induction_apply path p = Some p' /\ ~ sim [] p p'.
Proof.
  exists (ind_p (EVar n_)), [0%nat]. eexists.
  refute 50%nat (store_of [sc n_ 0; sc m_ 7] []) (m_, @nil Z).
Qed.

(* do i = 1, m  becomes  do i = 1, i - 1 *)
Theorem induction_refuted_bounds : exists p path p', induction_apply path p = Some p' /\ ~ sim [] p p'.
Proof.
  exists (ind_p (EVar m_)), [0%nat]. eexists.
  refute 50%nat (store_of [sc m_ 3; sc i_ 0] []) (a_, [2]).
Qed.

Definition ind_p_exit : list stmt :=
  [loop1 i_ (ELit 1) (EVar n_)
     [SAssign m_ [] (EBin Sub (EVar i_) (ELit 1));
      SIf (EBin Gt (EIdx a_ [EVar i_]) (ELit 0)) [SExit] [];
      SAssign a_ [EVar i_] (EVar m_)]].

Theorem induction_refuted_exit : exists p path p', induction_apply path p = Some p' /\ ~ sim [] p p'.
Proof.
  exists ind_p_exit, [0%nat]. eexists.
  refute 50%nat (store_of [sc n_ 3; el1 a_ 2 1] []) (m_, @nil Z).
Qed.
