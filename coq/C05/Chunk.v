(* C05 — ChunkLoopTrans: soundness for positive steps that divide the chunk size
   (chunk_sound_partial).  The refutations for the other accepted cases are in Refuted.v. *)
From Coq Require Import List ZArith Bool Lia.
Import ListNotations.
From PV Require Import Fort.Syntax Fort.Sem Fort.Facts Fort.Facts3 C05.Model C05.Equiv.
Open Scope Z_scope.

(* ------------------------------------------------------------------------------------------ *)
(** * A block without EXIT/CYCLE ends normally or by RETURN *)

Lemma no_cb_ctl f : forall ss s s' tr c,
  has_cb ss = false -> exec f ss s = Ok s' tr c -> c = CNormal \/ c = CReturn.
Proof.
  induction f as [|f IH]; intros ss s s' tr c H E; [discriminate|].
  destruct ss as [|st rest]; [cbn [exec] in E; inversion E; auto|].
  unfold has_cb in H. cbn [existsb] in H. apply orb_false_iff in H as [H1 H2].
  rewrite exec_cons in E.
  apply then_run_ok_inv in E as [[s1 [tr1 [tr2 [E1 [E2 ->]]]]]|[Nc E1]].
  - eapply IH; [exact H2|exact E2].
  - destruct st as [x ix e|cnd th el|x lo hi st body| | | |es|r body|d body]; cbn [exec_stmt has_cb_stmt] in *;
      try discriminate.
    + destruct (opt_all _); [|discriminate]. destruct (eval s e); [|discriminate]. inversion E1; subst. contradiction.
    + destruct (eval s cnd) as [v|]; [|discriminate]. apply prepend_ok_inv in E1 as [tr0 [E1 _]].
      apply orb_false_iff in H1 as [Ha Hb]. eapply IH; [|exact E1]. destruct (v =? 0); assumption.
    + destruct (eval s lo); [|discriminate]. destruct (eval s hi); [|discriminate].
      destruct (eval s st) as [t|]; [|discriminate]. destruct (t =? 0); [discriminate|].
      apply prepend_ok_inv in E1 as [tr0 [E1 _]]. eapply do_loop_ctl; exact E1.
    + inversion E1; auto.
    + destruct (opt_all _); [|discriminate]. inversion E1; subst. contradiction.
    + destruct (exec f body s) as [sa ta ca| |] eqn:Eb; try discriminate. inversion E1; subst.
      eapply IH; [exact H1|exact Eb].
    + eapply IH; [exact H1|exact E1].
Qed.

(* ------------------------------------------------------------------------------------------ *)
(** * Trip-count arithmetic *)

Lemma trip_count_pos l h t : 0 < t ->
  trip_count l h t = Z.to_nat (if h <? l then 0 else (h - l) / t + 1).
Proof.
  intro Ht. unfold trip_count. f_equal. destruct (h <? l) eqn:E.
  - apply Z.ltb_lt in E. destruct (Z_lt_ge_dec (h - l + t) 0) as [N|N].
    + assert (Q : Z.quot (h - l + t) t <= 0).
      { replace (h - l + t) with (- (l - h - t)) by lia. rewrite Z.quot_opp_l by lia.
        assert (0 <= Z.quot (l - h - t) t) by (apply Z.quot_pos; lia). lia. }
      lia.
    + rewrite Z.quot_div_nonneg by lia. rewrite Z.div_small by lia. reflexivity.
  - apply Z.ltb_ge in E. rewrite Z.quot_div_nonneg by lia.
    replace (h - l + t) with ((h - l) + 1 * t) by lia. rewrite Z.div_add by lia.
    assert (0 <= (h - l) / t) by (apply Z.div_pos; lia). lia.
Qed.

Section Arith.
  Variables (l h t q : Z).
  Hypothesis Ht : 0 < t.
  Hypothesis Hq : 0 < q.
  Let c := t * q.
  Let N := Z.of_nat (trip_count l h t).
  Let M := Z.of_nat (trip_count l h c).

  Lemma chunks_cover : N <= M * q.
  Proof.
    subst N M. rewrite !trip_count_pos by (subst c; nia). destruct (h <? l) eqn:E; [cbn; lia|].
    apply Z.ltb_ge in E. subst c. rewrite <- Z.div_div by lia.
    set (a := (h - l) / t). assert (0 <= a) by (apply Z.div_pos; lia).
    assert (0 <= a / q) by (apply Z.div_pos; lia).
    rewrite !Z2Nat.id by lia. pose proof (Z.mul_succ_div_gt a q Hq). lia.
  Qed.

  Lemma chunk_trip j : 0 <= j < M ->
    let o := l + j * c in
    Z.of_nat (trip_count o (Z.min (o + (c - 1)) h) t) = Z.min q (N - j * q) /\ 1 <= N - j * q.
  Proof.
    intros Hj o. subst N M. rewrite !trip_count_pos in * by (subst c; nia).
    destruct (h <? l) eqn:E; [cbn in Hj; lia|]. apply Z.ltb_ge in E.
    assert (Hc : c = t * q) by reflexivity.
    rewrite Hc in Hj. rewrite <- Z.div_div in Hj by lia.
    set (a := (h - l) / t) in *. assert (Ha : 0 <= a) by (apply Z.div_pos; lia).
    assert (Haq : 0 <= a / q) by (apply Z.div_pos; lia).
    rewrite Z2Nat.id in Hj by lia. rewrite (Z2Nat.id (a + 1)) by lia.
    assert (Hjq : j * q <= a).
    { pose proof (Z.mul_div_le a q Hq). nia. }
    assert (Hdec : h - l = t * a + (h - l) mod t) by (apply Z.div_mod; lia).
    assert (Hmod : 0 <= (h - l) mod t < t) by (apply Z.mod_pos_bound; lia).
    assert (Ho : o <= h) by (subst o; rewrite Hc; nia).
    destruct (Z.min (o + (c - 1)) h <? o) eqn:E2; [apply Z.ltb_lt in E2; nia|].
    assert (D1 : (c - 1) / t = q - 1).
    { rewrite Hc. replace (t * q - 1) with ((t - 1) + (q - 1) * t) by lia.
      rewrite Z.div_add by lia. rewrite Z.div_small by lia. lia. }
    assert (D2 : (h - o) / t = a - j * q).
    { subst o. rewrite Hc. replace (h - (l + j * (t * q))) with ((h - l) + (- (j * q)) * t) by lia.
      rewrite Z.div_add by lia. fold a. lia. }
    split; [|lia].
    destruct (Z.min_spec (o + (c - 1)) h) as [[Hlt ->]|[Hge ->]].
    - replace (o + (c - 1) - o) with (c - 1) by lia. rewrite D1.
      assert (q - 1 <= a - j * q).
      { rewrite <- D1, <- D2. apply Z.div_le_mono; lia. }
      rewrite Z2Nat.id by lia. lia.
    - rewrite D2.
      assert (a - j * q <= q - 1).
      { rewrite <- D1, <- D2. apply Z.div_le_mono; lia. }
      rewrite Z2Nat.id by lia. lia.
  Qed.
End Arith.

(* ------------------------------------------------------------------------------------------ *)
(** * Iterations on stores that differ only on the chunk variables and the DO variable *)

Definition agreeL (x out el : name) (s1 s2 : store) : Prop := agree [x; out; el] s1 s2.

Lemma agreeL_agree x out el s1 s2 : agreeL x out el s1 s2 -> agree [x; out; el] s1 s2.
Proof. exact (fun H => H). Qed.

Lemma not_xlocs3 x out el l :
  l <> (x, []) -> l <> (out, []) -> l <> (el, []) -> ~ In l (xlocs [x; out; el]).
Proof. intros N1 N2 N3 H. cbn [xlocs map In] in H. destruct H as [H|[H|[H|[]]]]; congruence. Qed.

Lemma xlocs3_inv x out el l :
  ~ In l (xlocs [x; out; el]) -> l <> (x, []) /\ l <> (out, []) /\ l <> (el, []).
Proof. intro N. cbn [xlocs map In] in N. repeat split; intro E; apply N; subst; auto. Qed.

Lemma zseq_shift k n : zseq k n = map (Z.add k) (zseq 0 n).
Proof.
  revert k. induction n as [|n IH]; intro k; [reflexivity|].
  cbn [zseq map]. f_equal; [lia|]. rewrite (IH (k + 1)), (IH (0 + 1)). rewrite map_map.
  apply map_ext. intro a. lia.
Qed.

Lemma ivals_shift l t k n : ivals l t k n = ivals (l + k * t) t 0 n.
Proof.
  unfold ivals. rewrite (zseq_shift k n), map_map. apply map_ext. intro a. lia.
Qed.

Section Iters.
  Variables (x out el : name) (body : list stmt) (g g2 : nat).
  Hypothesis Hg : (g <= g2)%nat.
  Hypothesis Hfresh : nomention [out; el] (rnames body).
  Hypothesis Hcb : has_cb body = false.

  Lemma iters_chunk_sim : forall vs s1 s2 s1' tr c,
    agreeL x out el s1 s2 -> iters (exec g body) x vs s1 = Ok s1' tr c ->
    exists s2', iters (exec g2 body) x vs s2 = Ok s2' tr c /\ agreeL x out el s1' s2'.
  Proof.
    induction vs as [|v vs IH]; intros s1 s2 s1' tr c A E.
    - rewrite iters_nil in E. inversion E; subst. exists s2. rewrite iters_nil. auto.
    - rewrite iters_cons in E |- *. rewrite iter_run_eq in E |- *.
      destruct (exec g body (upd s1 (x, []) v)) as [sa ta ca| |] eqn:Eb;
        [|cbn [map_ctl prepend then_run bind_run] in E; discriminate..].
      assert (Aup : forall l, In (fst l) (rnames body) ->
                 val (upd s2 (x, []) v) l = val (upd s1 (x, []) v) l).
      { intros l Hl. rewrite !val_upd. destruct (loc_eq_dec l (x, [])); [reflexivity|].
        destruct A as [_ A]. apply A. apply not_xlocs3; [assumption| |]; intro Eq; subst l;
          [apply (Hfresh out)|apply (Hfresh el)]; cbn [In fst] in *; auto. }
      destruct (exec_frame_names g body _ _ _ _ (upd s2 (x, []) v) Eb (proj1 A) Aup) as [sb [R1 [R2 [R3 [R4 R5]]]]].
      rewrite (exec_mono _ g2 _ _ _ R1 (ok_not_oof _ _ _) Hg).
      assert (Ab : agreeL x out el sa sb).
      { split.
        - rewrite R2. cbn [bnd upd]. rewrite (proj1 A). symmetry.
          rewrite (exec_bnd _ _ _ _ _ _ Eb). reflexivity.
        - intros l N1. apply R4. rewrite !val_upd. destruct (loc_eq_dec l (x, [])); [reflexivity|].
          apply (proj2 A); assumption. }
      cbn [map_ctl prepend] in E |- *. unfold then_run in E |- *.
      destruct (cyc2norm ca) eqn:Ec; cbn [bind_run] in E |- *.
      + apply prepend_ok_inv in E as [tr0 [E ->]].
        destruct (IH _ _ _ _ _ Ab E) as [s2' [F A2]]. exists s2'. rewrite F. cbn [prepend]. auto.
      + inversion E; subst. exists sb. auto.
      + inversion E; subst. exists sb. auto.
      + inversion E; subst. exists sb. auto.
  Qed.

  Lemma iters_ctl : forall vs s s' tr c,
    iters (exec g body) x vs s = Ok s' tr c -> c = CNormal \/ c = CReturn.
  Proof.
    induction vs as [|v vs IH]; intros s s' tr c E.
    - rewrite iters_nil in E. inversion E; auto.
    - rewrite iters_cons in E. apply then_run_ok_inv in E as [[s1 [tr1 [tr2 [E1 [E2 _]]]]]|[Nc E1]].
      + eapply IH; exact E2.
      + apply iter_run_ok_inv in E1 as [tr0 [c0 [E1 [_ ->]]]].
        destruct (no_cb_ctl _ _ _ _ _ _ Hcb E1) as [-> | ->]; cbn [cyc2norm]; auto.
  Qed.

  Lemma iters_unchanged : forall vs s s' tr c,
    iters (exec g body) x vs s = Ok s' tr c ->
    bnd s' = bnd s /\ forall l, fst l <> x -> ~ In (fst l) (wnames body) -> val s' l = val s l.
  Proof.
    induction vs as [|v vs IH]; intros s s' tr c E.
    - rewrite iters_nil in E. inversion E; auto.
    - rewrite iters_cons in E.
      assert (One : forall sa tra ca, iter_run (exec g body) x v s = Ok sa tra ca ->
                bnd sa = bnd s /\ forall l, fst l <> x -> ~ In (fst l) (wnames body) -> val sa l = val s l).
      { intros sa tra ca E1. apply iter_run_ok_inv in E1 as [tr0 [c0 [E1 _]]]. split.
        - rewrite (exec_bnd _ _ _ _ _ _ E1). reflexivity.
        - intros l N1 N2. rewrite (exec_unchanged_names _ _ _ _ _ _ l E1 N2).
          apply val_upd_other. intro Eq. subst l. apply N1. reflexivity. }
      apply then_run_ok_inv in E as [[s1 [tr1 [tr2 [E1 [E2 _]]]]]|[Nc E1]].
      + destruct (One _ _ _ E1) as [B1 U1]. destruct (IH _ _ _ _ E2) as [B2 U2].
        split; [congruence|]. intros l N1 N2. rewrite U2, U1; auto.
      + eapply One; exact E1.
  Qed.
End Iters.

(* ------------------------------------------------------------------------------------------ *)
(** * The chunked loop *)

Section Chunk.
  Variables (x out el : name) (hi : expr) (body : list stmt) (l h t q : Z) (g : nat).
  Hypothesis Ht : 0 < t.
  Hypothesis Hq : 0 < q.
  Let c := t * q.
  Hypothesis Dxo : x <> out.
  Hypothesis Dxe : x <> el.
  Hypothesis Doe : out <> el.
  Hypothesis Hfresh : nomention [out; el] (rnames body).
  Hypothesis Hcb : has_cb body = false.
  Hypothesis Hhi : nomention [x; out; el] (enames hi).
  Hypothesis Hhiw : forall nm, In nm (enames hi) -> ~ In nm (wnames body).

  Let endv := EIntr IMin [EBin Add (EVar out) (EBin Sub (ELit c) (ELit 1)); hi].
  Let inner := SDo x (EVar out) (EVar el) (ELit t) body.
  Let B' := [SAssign el [] endv; inner].
  Let F' := (2 + S (S g))%nat.
  Let N := Z.of_nat (trip_count l h t).
  Let M := Z.of_nat (trip_count l h c).

  Lemma eval_hi_agreeL s1 s2 : agreeL x out el s1 s2 -> eval s2 hi = eval s1 hi.
  Proof. intro A. apply (eval_agree [x; out; el] s1 s2 hi A Hhi). Qed.

  (* one outer iteration of the chunked loop, given the run of its inner iterations *)
  Lemma chunk_body_exec s2 o n sb tb cb :
    eval (upd s2 (out, []) o) hi = Some h ->
    n = trip_count o (Z.min (o + (c - 1)) h) t ->
    iters (exec (S g) body) x (ivals o t 0 n)
          (upd (upd s2 (out, []) o) (el, []) (Z.min (o + (c - 1)) h)) = Ok sb tb cb ->
    cb = CNormal \/ cb = CReturn ->
    exists s2' tr', exec F' B' (upd s2 (out, []) o) = Ok s2' tr' cb /\ vis tr' = vis tb /\
      (cb = CNormal -> s2' = upd sb (x, []) (o + Z.of_nat n * t)) /\ (cb = CReturn -> s2' = sb).
  Proof.
    intros Eh Hn Ei Hc.
    set (s2o := upd s2 (out, []) o) in *. set (e := Z.min (o + (c - 1)) h) in *.
    assert (Ea : exec 2 [SAssign el [] endv] s2o =
                 Ok (upd s2o (el, []) e) (rds (ereads s2o endv ++ flat_map (ereads s2o) []) ++ [Wr (el, [])]) CNormal).
    { apply (exec_assign 0 el [] endv s2o [] e); [reflexivity|].
      subst endv. cbn [eval is_inquiry map opt_all eval_bin]. rewrite Eh.
      replace (val s2o (out, [])) with o by (subst s2o; rewrite val_upd_same; reflexivity).
      cbn [opt_all eval_intr fold_left]. reflexivity. }
    set (s2e := upd s2o (el, []) e) in *.
    assert (Eo : eval s2e (EVar out) = Some o).
    { cbn [eval]. subst s2e s2o. rewrite val_upd_other by (intro Q; inversion Q; congruence).
      rewrite val_upd_same. reflexivity. }
    assert (Ee : eval s2e (EVar el) = Some e) by (cbn [eval]; subst s2e; rewrite val_upd_same; reflexivity).
    assert (Ed := exec_do g x (EVar out) (EVar el) (ELit t) body s2e o e t Eo Ee eq_refl ltac:(lia)).
    rewrite <- Hn in Ed. rewrite do_loop_iters in Ed. rewrite Ei in Ed.
    destruct Hc as [-> | ->]; cbn [bind_run set_run prepend exit2norm] in Ed.
    - eexists. eexists. split; [eapply (exec_cons_ok 2 (S (S g))); [exact Ea|exact Ed]|].
      split; [|split; [intros _; rewrite Z.add_0_l; reflexivity|discriminate]].
      rewrite !vis_app, !vis_rds. cbn [vis filter visible app]. rewrite app_nil_r. reflexivity.
    - eexists. eexists. split; [eapply (exec_cons_ok 2 (S (S g))); [exact Ea|exact Ed]|].
      split; [|split; [discriminate|reflexivity]].
      rewrite !vis_app, !vis_rds. cbn [vis filter visible app]. reflexivity.
  Qed.

  Lemma chunk_loop_sim : forall m j nrem k s1 s2 s1' tr cc,
    0 <= j -> Z.of_nat m = M - j -> Z.of_nat nrem = Z.max 0 (N - j * q) -> (nrem <> O -> k = j * q) ->
    agreeL x out el s1 s2 -> eval s1 hi = Some h ->
    do_loop (exec g body) x l t nrem k s1 = Ok s1' tr cc ->
    exists s2' tr', do_loop (exec F' B') out l c m j s2 = Ok s2' tr' cc /\
                    agree [x; out; el] s1' s2' /\ vis tr' = vis tr.
  Proof.
    induction m as [|m IH]; intros j nrem k s1 s2 s1' tr cc Hj Hm Hn Hk A Eh E.
    - (* no chunk left: no iteration left *)
      assert (nrem = O).
      { pose proof (chunks_cover l h t q Ht Hq) as Hc. fold c N M in Hc. nia. }
      subst nrem. cbn [do_loop] in E |- *. inversion E; subst.
      eexists. eexists. split; [reflexivity|]. split; [|reflexivity].
      apply agree_upd_l; [|left; reflexivity]. apply agree_upd_r; [|right; left; reflexivity].
      exact A.
    - assert (Hjm : 0 <= j < M) by lia.
      destruct (chunk_trip l h t q Ht Hq j) as [Hn1 Hn2]; [fold c M; exact Hjm|].
      fold c N in Hn1, Hn2.
      set (o := l + j * c) in *. set (e := Z.min (o + (c - 1)) h) in *.
      set (n := trip_count o e t) in *.
      assert (Hk' : k = j * q) by (apply Hk; lia).
      set (nrem' := Z.to_nat (N - (j + 1) * q)).
      assert (Hsplit : nrem = (n + nrem')%nat) by (subst nrem'; lia).
      rewrite Hsplit, do_loop_split in E. subst k.
      rewrite ivals_shift in E. replace (l + j * q * t) with o in E by (subst o c; lia).
      destruct (iters (exec g body) x (ivals o t 0 n) s1) as [sa ta ca| |] eqn:Ei;
        [|cbn [bind_run] in E; discriminate..].
      destruct (iters_ctl x body g Hcb _ _ _ _ _ Ei) as [Hca|Hca].
      + (* all iterations of the chunk completed *)
        subst ca. cbn [bind_run] in E. apply prepend_ok_inv in E as [tr0 [E ->]].
        assert (A2e : agreeL x out el s1 (upd (upd s2 (out, []) o) (el, []) e)).
        { apply agree_upd_r; [|right; right; left; reflexivity]. apply agree_upd_r; [exact A|right; left; reflexivity]. }
        destruct (iters_chunk_sim x out el body g (S g) ltac:(lia) Hfresh _ _ _ _ _ _ A2e Ei) as [sb [Fi Ab]].
        assert (Eh2 : eval (upd s2 (out, []) o) hi = Some h).
        { rewrite <- Eh. apply eval_hi_agreeL. apply agree_upd_r; [exact A|right; left; reflexivity]. }
        destruct (chunk_body_exec s2 o n sb ta CNormal Eh2 eq_refl Fi (or_introl eq_refl))
          as [s2b [trb [Fb [Vb [Sb _]]]]].
        specialize (Sb eq_refl). subst s2b.
        assert (Anext : agreeL x out el sa (upd sb (x, []) (o + Z.of_nat n * t))).
        { apply agree_upd_r; [exact Ab|left; reflexivity]. }
        assert (Eh3 : eval sa hi = Some h).
        { rewrite <- Eh. destruct (iters_unchanged x body g _ _ _ _ _ Ei) as [B U].
          apply eval_frame; [exact B|]. intros l0 Hl. apply ereads_names in Hl. apply U.
          - intro Q. apply (Hhi x); [left; reflexivity|rewrite <- Q; exact Hl].
          - apply Hhiw, Hl. }
        destruct (IH (j + 1) nrem' (j * q + Z.of_nat n) sa (upd sb (x, []) (o + Z.of_nat n * t)) s1' tr0 cc) as [s2' [tr' [F2 [A2 V2]]]];
          try assumption; try lia.
        exists s2', ((Wr (out, []) :: trb) ++ tr'). split.
        * rewrite do_loop_S. rewrite iter_run_eq. fold o. rewrite Fb.
          cbn [map_ctl cyc2norm prepend bind_run app]. rewrite F2. reflexivity.
        * split; [exact A2|]. rewrite !vis_app. cbn [vis filter visible]. fold (vis trb). congruence.
      + (* an iteration of the chunk executed RETURN *)
        subst ca. cbn [bind_run exit2norm] in E. inversion E; subst s1' tr cc.
        assert (A2e : agreeL x out el s1 (upd (upd s2 (out, []) o) (el, []) e)).
        { apply agree_upd_r; [|right; right; left; reflexivity]. apply agree_upd_r; [exact A|right; left; reflexivity]. }
        destruct (iters_chunk_sim x out el body g (S g) ltac:(lia) Hfresh _ _ _ _ _ _ A2e Ei) as [sb [Fi Ab]].
        assert (Eh2 : eval (upd s2 (out, []) o) hi = Some h).
        { rewrite <- Eh. apply eval_hi_agreeL. apply agree_upd_r; [exact A|right; left; reflexivity]. }
        destruct (chunk_body_exec s2 o n sb ta CReturn Eh2 eq_refl Fi (or_intror eq_refl))
          as [s2b [trb [Fb [Vb [_ Sb]]]]].
        specialize (Sb eq_refl). subst s2b.
        exists sb, (Wr (out, []) :: trb). split.
        * rewrite do_loop_S. rewrite iter_run_eq. fold o. rewrite Fb. reflexivity.
        * split; [apply agreeL_agree, Ab|]. cbn [vis filter visible]. exact Vb.
  Qed.
End Chunk.

(* ------------------------------------------------------------------------------------------ *)
(** * chunk_sound_partial *)

(* sufficient condition on the target loop: the model accepts it, the step is positive and divides the
   chunk size, the introduced symbols are distinct from the loop variable and not read in the loop,
   the bounds do not mention the loop variable or the introduced symbols, and the stop expression reads
   nothing the body writes *)
Definition chunk_safe_local (c : Z) (x out el : name) (s : stmt) : bool :=
  match s with
  | SDo x' lo hi (ELit t) body =>
      Nat.eqb x' x && chunk_ok c s && (0 <? t) && (c mod t =? 0) &&
      negb (Nat.eqb x out) && negb (Nat.eqb x el) && negb (Nat.eqb out el) &&
      nomentionb [out; el] (rnames body) &&
      nomentionb [x; out; el] (enames lo ++ enames hi) &&
      forallb (fun nm => negb (mem nm (wnames body))) (enames hi)
  | _ => false
  end.

Lemma chunk_local c x out el s seg' :
  chunk_safe_local c x out el s = true -> chunk_at c out el s = Some seg' -> sim [x; out; el] [s] seg'.
Proof.
  intros Hs Ha. destruct s as [ | |x' lo hi st body| | | | | | ]; try discriminate.
  destruct st as [t| | | | | ]; try discriminate.
  unfold chunk_safe_local in Hs. repeat (apply andb_true_iff in Hs as [Hs ?]).
  apply Nat.eqb_eq in Hs. subst x'.
  match goal with H : chunk_ok _ _ = true |- _ => rename H into Hok end.
  unfold chunk_at in Ha. rewrite Hok in Ha. injection Ha as <-.
  unfold chunk_ok in Hok. repeat (apply andb_true_iff in Hok as [Hok ?]).
  assert (Hc : 0 < c) by (apply Z.ltb_lt; assumption).
  assert (Ht : 0 < t) by (apply Z.ltb_lt; assumption).
  assert (Hmod : c mod t = 0) by (apply Z.eqb_eq; assumption).
  assert (Dxo : x <> out) by (apply Nat.eqb_neq, negb_true_iff; assumption).
  assert (Dxe : x <> el) by (apply Nat.eqb_neq, negb_true_iff; assumption).
  assert (Doe : out <> el) by (apply Nat.eqb_neq, negb_true_iff; assumption).
  assert (Hcb : has_cb body = false) by (apply negb_true_iff; assumption).
  assert (Hfresh : nomention [out; el] (rnames body)) by (apply nomentionb_ok; assumption).
  assert (Hb : nomention [x; out; el] (enames lo ++ enames hi)) by (apply nomentionb_ok; assumption).
  apply nomention_app in Hb as [Hlo Hhi].
  assert (Hhiw : forall nm, In nm (enames hi) -> ~ In nm (wnames body)).
  { intros nm Hn Hw. match goal with H : forallb _ (enames hi) = true |- _ => rewrite forallb_forall in H; specialize (H nm Hn) end.
    apply mem_In in Hw. rewrite Hw in *. discriminate. }
  set (q := c / t).
  assert (Hcq : c = t * q) by (subst q; apply Z_div_exact_full_2; lia).
  assert (Hq : 0 < q) by nia.
  unfold chunk_build. replace (t >? 0) with true by (symmetry; apply Z.gtb_lt; lia).
  intros f s1 s2 s1' tr cc A E.
  apply exec_do_inv in E as [f0 [l [h [t' [tr0 [-> [E1 [E2 [E3 [Nt [E ->]]]]]]]]]]].
  cbn [eval] in E3. injection E3 as <-.
  destruct (eval_agree _ s1 s2 lo A Hlo) as [V1 R1]. destruct (eval_agree _ s1 s2 hi A Hhi) as [V2 R2].
  rewrite Hcq in *.
  destruct (chunk_loop_sim x out el hi body l h t q (S f0) Ht Hq Dxo Dxe Doe Hfresh Hcb Hhi Hhiw
              (trip_count l h (t * q)) 0 (trip_count l h t) 0 s1 s2 s1' tr0 cc)
    as [s2' [tr' [F2 [A2 W2]]]]; try assumption; try lia.
  pose proof (exec_do (1 + S (S (S f0))) out lo hi (ELit (t * q))
                [SAssign el [] (EIntr IMin [EBin Add (EVar out) (EBin Sub (ELit (t * q)) (ELit 1)); hi]);
                 SDo x (EVar out) (EVar el) (ELit t) body] s2 l h (t * q)
                ltac:(congruence) ltac:(congruence) eq_refl ltac:(lia)) as Ed.
  change (S (1 + S (S (S f0)))) with (2 + S (S (S f0)))%nat in Ed. rewrite F2 in Ed. cbn [prepend] in Ed.
  eexists. eexists. eexists. split; [exact Ed|]. split; [exact A2|].
  rewrite !vis_app, !vis_rds. exact W2.
Qed.

(* whole-program condition: the target satisfies [chunk_safe_local] and nothing else in the program reads
   the loop variable or the introduced symbols (their values after the loop are the documented
   exclusions of the property) *)
Definition chunk_guard (c : Z) (x out el : name) (seg : list stmt) : option (list stmt) :=
  match seg with [s] => if chunk_safe_local c x out el s then Some [] else None | _ => None end.

Definition chunk_safe (c : Z) (x out el : name) (path : list nat) (p : list stmt) : bool :=
  match rw 1 (chunk_guard c x out el) path p with
  | Some p0 => nomentionb [x; out; el] (rnames p0)
  | None => false
  end.

Theorem chunk_sound_partial c x out el path p p' :
  chunk_safe c x out el path p = true -> chunk_apply c out el path p = Some p' -> sim [x; out; el] p p'.
Proof.
  unfold chunk_safe, chunk_apply, rw1. intros Hs Ha.
  destruct (rw 1 (chunk_guard c x out el) path p) as [p0|] eqn:E0; [|discriminate].
  eapply rw_sim; [|exact Ha|exact E0|apply nomentionb_ok, Hs].
  intros seg seg' g0 HF HG. destruct seg as [|s [|s2 seg]]; try discriminate.
  cbn [chunk_guard] in HG. destruct (chunk_safe_local c x out el s) eqn:Es; [|discriminate].
  injection HG as <-. split; [reflexivity|]. apply (chunk_local c x out el); assumption.
Qed.

(* non-vacuity:  s = 0; do i = 1, n, 2 { a(i) = a(i) + i };  chunk size 4 *)
Definition chunk_example : list stmt :=
  [SAssign 4%nat [] (ELit 0);
   SDo 0%nat (ELit 1) (EVar 2%nat) (ELit 2) [SAssign 10%nat [EVar 0%nat] (EBin Add (EIdx 10%nat [EVar 0%nat]) (EVar 0%nat))]].

Example chunk_nonvacuous :
  chunk_safe 4 0%nat 20%nat 21%nat [1%nat] chunk_example = true /\
  chunk_apply 4 20%nat 21%nat [1%nat] chunk_example =
  Some [SAssign 4%nat [] (ELit 0);
        SDo 20%nat (ELit 1) (EVar 2%nat) (ELit 4)
          [SAssign 21%nat [] (EIntr IMin [EBin Add (EVar 20%nat) (EBin Sub (ELit 4) (ELit 1)); EVar 2%nat]);
           SDo 0%nat (EVar 20%nat) (EVar 21%nat) (ELit 2)
             [SAssign 10%nat [EVar 0%nat] (EBin Add (EIdx 10%nat [EVar 0%nat]) (EVar 0%nat))]]].
Proof. split; reflexivity. Qed.
