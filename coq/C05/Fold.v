(* C05 — FoldConditionalReturnExpressionsTrans: full soundness.  Same final store and the SAME trace;
   the routine-level control state may change from "returned" to "fell off the end", which is the
   same thing for the caller. *)
From Coq Require Import List ZArith Bool Lia.
Import ListNotations.
From PV Require Import Fort.Syntax Fort.Sem Fort.Facts C05.Model C05.Equiv.
Open Scope Z_scope.

Definition cond_return (s : stmt) : option expr :=
  match s with SIf c (SReturn :: _) [] => Some c | _ => None end.

Lemma fold_apply_cons s rest :
  fold_apply (s :: rest) =
  match cond_return s with
  | Some c => [SIf (EUn Not c) (fold_apply rest) []]
  | None => s :: fold_apply rest
  end.
Proof.
  destruct s as [x ix e|c th el|x lo hi st body| | | |es|r body|d body]; try reflexivity.
  destruct th as [|t th]; [reflexivity|]. destruct t; try reflexivity. destruct el; reflexivity.
Qed.

Lemma cond_return_inv s c : cond_return s = Some c -> exists dead, s = SIf c (SReturn :: dead) [].
Proof.
  destruct s as [x ix e|c0 th el|x lo hi st body| | | |es|r body|d body]; try discriminate.
  destruct th as [|t th]; [discriminate|]. destruct t; try discriminate. destruct el; [|discriminate].
  cbn [cond_return]. intro H. injection H as <-. eauto.
Qed.

(* at routine level RETURN and normal completion are the same *)
Definition ctl_top (c c' : ctl) : Prop := c' = c \/ (c = CReturn /\ c' = CNormal).

Theorem fold_sound p : forall f s s' tr c,
  exec f p s = Ok s' tr c ->
  exists f' c', exec f' (fold_apply p) s = Ok s' tr c' /\ ctl_top c c'.
Proof.
  induction p as [|st rest IH]; intros f s s' tr c E.
  - exists f, c. split; [exact E|left; reflexivity].
  - rewrite fold_apply_cons. destruct (cond_return st) as [cnd|] eqn:Ecr.
    + apply cond_return_inv in Ecr as [dead ->].
      apply exec_cons_inv in E as [[s1 [tr1 [tr2 [E1 [E2 ->]]]]]|[Nc E1]].
      * (* condition false: the IF completes normally, the rest runs *)
        apply exec_single_inv in E1 as [f0 [-> E1]]. cbn [exec_stmt] in E1.
        destruct (eval s cnd) as [v|] eqn:Ev; [|discriminate].
        apply prepend_ok_inv in E1 as [tr0 [E1 ->]].
        destruct (v =? 0) eqn:Ez.
        -- destruct f0 as [|f0]; [discriminate|]. cbn [exec] in E1. inversion E1; subst s1 tr0.
           destruct (IH _ _ _ _ _ E2) as [f' [c' [F' Hc]]].
           exists (S (S f')), c'. split; [|exact Hc].
           apply exec_single_intro. cbn [exec_stmt eval]. rewrite Ev. cbn [option_map eval_un]. rewrite Ez.
           cbn [b2z Z.eqb]. cbn [ereads]. rewrite F'. cbn [prepend]. rewrite app_nil_r. reflexivity.
        -- (* RETURN does not complete normally *)
           destruct f0 as [|f0]; [discriminate|]. cbn [exec] in E1. discriminate.
      * (* condition true: RETURN *)
        apply exec_single_inv in E1 as [f0 [-> E1]]. cbn [exec_stmt] in E1.
        destruct (eval s cnd) as [v|] eqn:Ev; [|discriminate].
        apply prepend_ok_inv in E1 as [tr0 [E1 ->]].
        destruct (v =? 0) eqn:Ez.
        -- destruct f0 as [|f0]; [discriminate|]. cbn [exec] in E1. inversion E1; subst. contradiction.
        -- destruct f0 as [|f0]; [discriminate|]. cbn [exec] in E1. inversion E1; subst s' tr0 c.
           exists 3%nat, CNormal. split; [|right; split; reflexivity].
           apply (exec_single_intro 1). cbn [exec_stmt eval]. rewrite Ev. cbn [option_map eval_un]. rewrite Ez.
           cbn [b2z Z.eqb ereads exec prepend]. reflexivity.
    + apply exec_cons_inv in E as [[s1 [tr1 [tr2 [E1 [E2 ->]]]]]|[Nc E1]].
      * destruct (IH _ _ _ _ _ E2) as [f' [c' [F' Hc]]].
        exists (f + f')%nat, c'. split; [|exact Hc]. eapply exec_cons_ok; eassumption.
      * exists f, c. split; [|left; reflexivity].
        change (st :: fold_apply rest) with ([st] ++ fold_apply rest). apply exec_app_abrupt; assumption.
Qed.

(* non-vacuity: if (n < 5) return; s = 1; if (n > 10) return; t = 2 *)
Example fold_nonvacuous :
  fold_apply [SIf (EBin Lt (EVar 0%nat) (ELit 5)) [SReturn] []; SAssign 1%nat [] (ELit 1);
              SIf (EBin Gt (EVar 0%nat) (ELit 10)) [SReturn; SAssign 1%nat [] (ELit 3)] []; SAssign 2%nat [] (ELit 2)] =
  [SIf (EUn Not (EBin Lt (EVar 0%nat) (ELit 5)))
       [SAssign 1%nat [] (ELit 1);
        SIf (EUn Not (EBin Gt (EVar 0%nat) (ELit 10))) [SAssign 2%nat [] (ELit 2)] []] []].
Proof. reflexivity. Qed.
