(* C05 — LoopSwapTrans: interchange of a perfect 2-nest with literal bounds and a plain body.
   (a) the nest executes, up to the two DO variables, as the sequence of its (i, j) iterations in
       row-major order, the interchanged nest as the column-major sequence (both directions);
   (b) the two index lists are permutations of each other (and duplicate-free);
   (c) under a SEMANTIC independence premise on the iteration traces (the one of Fort/Facts2.seq_runs_perm)
       the interchanged nest computes the same store except for the two DO variables. *)
From Coq Require Import List ZArith Bool Lia Permutation.
Import ListNotations.
From PV Require Import Fort.Syntax Fort.Sem Fort.Facts Fort.Facts2 Fort.Facts3 C05.Model C05.Equiv C05.Fuse.
Open Scope Z_scope.

(* ------------------------------------------------------------------------------------------ *)
(** * (b) row-major and column-major index lists *)

Definition rowmajor {A B} (la : list A) (lb : list B) : list (A * B) :=
  flat_map (fun a => map (pair a) lb) la.
Definition colmajor {A B} (la : list A) (lb : list B) : list (A * B) :=
  flat_map (fun b => map (fun a => (a, b)) la) lb.

Lemma flat_map_cons_perm {A B} (f : A -> B) (g : A -> list B) l :
  Permutation (flat_map (fun b => f b :: g b) l) (map f l ++ flat_map g l).
Proof.
  induction l as [|a l IH]; [constructor|]. cbn [flat_map map app].
  constructor. rewrite IH. rewrite app_assoc, (Permutation_app_comm (g a) (map f l)), <- app_assoc. reflexivity.
Qed.

Lemma row_col_perm {A B} (la : list A) (lb : list B) : Permutation (rowmajor la lb) (colmajor la lb).
Proof.
  unfold rowmajor, colmajor. induction la as [|a la IH].
  - cbn [flat_map map]. induction lb as [|b lb IHb]; [constructor|exact IHb].
  - cbn [flat_map map]. rewrite IH. symmetry.
    apply (flat_map_cons_perm (fun b => (a, b)) (fun b => map (fun a0 => (a0, b)) la) lb).
Qed.

Lemma in_rowmajor {A B} (la : list A) (lb : list B) a b : In (a, b) (rowmajor la lb) <-> In a la /\ In b lb.
Proof.
  unfold rowmajor. rewrite in_flat_map. split.
  - intros [a' [Ha H]]. apply in_map_iff in H as [b' [E Hb]]. inversion E; subst. auto.
  - intros [Ha Hb]. exists a. split; [exact Ha|]. apply in_map. exact Hb.
Qed.


Lemma NoDup_app_intro {A} (l1 l2 : list A) :
  NoDup l1 -> NoDup l2 -> (forall x, In x l1 -> ~ In x l2) -> NoDup (l1 ++ l2).
Proof.
  intros H1 H2 D. induction H1 as [|a l1 Na _ IH]; [exact H2|].
  cbn [app]. constructor.
  - intro Q. apply in_app_or in Q as [Q|Q]; [exact (Na Q)|exact (D a (or_introl eq_refl) Q)].
  - apply IH. intros x Hx. apply D. right; exact Hx.
Qed.

Lemma rowmajor_NoDup {A B} (la : list A) (lb : list B) : NoDup la -> NoDup lb -> NoDup (rowmajor la lb).
Proof.
  intros Ha Hb. unfold rowmajor. induction Ha as [|a la Na _ IH]; [constructor|].
  cbn [flat_map]. apply NoDup_app_intro; [|exact IH|].
  - apply FinFun.Injective_map_NoDup; [|exact Hb]. intros b1 b2 E. inversion E; reflexivity.
  - intros [a' b'] H1 H2. apply in_map_iff in H1 as [b0 [E _]]. inversion E; subst.
    apply (in_rowmajor la lb a' b') in H2 as [H2 _]. exact (Na H2).
Qed.

(* ------------------------------------------------------------------------------------------ *)
(** * (a) a nest as the sequence of its iterations *)

Lemma agree_sym X s1 s2 : agree X s1 s2 -> agree X s2 s1.
Proof. intros [B A]. split; [symmetry; exact B|]. intros l N. symmetry. apply A, N. Qed.

Section Nest.
  Variables (x1 x2 : name) (body : list stmt) (gq : nat).
  Let gp := S gq.
  Hypothesis Hx12 : x1 <> x2.
  Hypothesis Hw1 : ~ In x1 (wnames body).
  Hypothesis Hw2 : ~ In x2 (wnames body).
  Hypothesis Hplain : plain body = true.
  Let X := [x1; x2].

  (* one iteration in canonical form: set i, set j, run the body *)
  Definition pair_run (p : Z * Z) : runner :=
    fun s => then_run (set_run (x1, []) (fst p) s)
                      (fun s1 => then_run (set_run (x2, []) (snd p) s1) (exec gp body)).

  Lemma pair_run_eq p s :
    pair_run p s = prepend [Wr (x1, []); Wr (x2, [])] (exec gp body (upd (upd s (x1, []) (fst p)) (x2, []) (snd p))).
  Proof.
    unfold pair_run, then_run, set_run. cbn [bind_run]. rewrite prepend_prepend. reflexivity.
  Qed.

  Lemma pair_run_frame p : frame_ok (pair_run p).
  Proof.
    unfold pair_run. apply (frame_then (set_run (x1, []) (fst p))); [apply frame_set_run|].
    apply (frame_then (set_run (x2, []) (snd p))); [apply frame_set_run|apply frame_exec].
  Qed.

  (* the nest  do xo { do xi { body } }  where (xo, xi) is (x1, x2) or (x2, x1); mk puts the pair of values
     in canonical (x1, x2) order *)
  Variables (xo xi : name) (mk : Z -> Z -> Z * Z).
  Hypothesis Hoi : xo <> xi.
  Hypothesis Hwo : ~ In xo (wnames body).
  Hypothesis Hxo : In xo X.
  Hypothesis Hxi : In xi X.
  Hypothesis Hmk : forall s vo vi,
    steq (upd (upd s (xo, []) vo) (xi, []) vi)
         (upd (upd s (x1, []) (fst (mk vo vi))) (x2, []) (snd (mk vo vi))).

  Lemma agree_pair_steq s1 s2 a b :
    agree X s1 s2 -> steq (upd (upd s1 (x1, []) a) (x2, []) b) (upd (upd s2 (x1, []) a) (x2, []) b).
  Proof.
    intros [B A]. split; [|cbn [bnd upd]; symmetry; exact B].
    intro l. rewrite !val_upd. destruct (loc_eq_dec l (x2, [])); [reflexivity|].
    destruct (loc_eq_dec l (x1, [])); [reflexivity|]. symmetry. apply A.
    cbn [xlocs map In]. intros [Q|[Q|[]]]; congruence.
  Qed.

  (* the store in which the body runs in the nest is the store of the canonical iteration *)
  Lemma body_store_steq s1 s2 vo vi :
    agree X s1 s2 -> val s1 (xo, []) = vo ->
    steq (upd s1 (xi, []) vi) (upd (upd s2 (x1, []) (fst (mk vo vi))) (x2, []) (snd (mk vo vi))).
  Proof.
    intros A Hv. eapply steq_trans; [|apply agree_pair_steq, A].
    eapply steq_trans; [|apply Hmk]. apply upd_steq.
    split; [|reflexivity]. intro l. rewrite val_upd. destruct (loc_eq_dec l (xo, [])) as [->|]; [exact Hv|reflexivity].
  Qed.

  Lemma steq_agree s1 s2 : steq s1 s2 -> agree X s1 s2.
  Proof. intros [A B]. split; [symmetry; exact B|]. intros l _. symmetry. apply A. Qed.

  Section Row.
    Variables (li ti vo : Z).

    Lemma row_fwd : forall n k s1 s2 s1' tr c,
      agree X s1 s2 -> val s1 (xo, []) = vo ->
      do_loop (exec gp body) xi li ti n k s1 = Ok s1' tr c ->
      exists s2' tr2, seq_runs (map pair_run (map (mk vo) (ivals li ti k n))) s2 = Ok s2' tr2 CNormal /\
                      agree X s1' s2' /\ val s1' (xo, []) = vo /\ c = CNormal /\ vis tr = [] /\ vis tr2 = [].
    Proof.
      induction n as [|n IH]; intros k s1 s2 s1' tr c A Hv E.
      - cbn [do_loop] in E. inversion E; subst. exists s2, []. cbn [ivals zseq map seq_runs].
        split; [reflexivity|]. split; [apply agree_upd_l; [exact A|exact Hxi]|].
        split; [rewrite val_upd_other by (intro Q; inversion Q; congruence); reflexivity|auto].
      - cbn [do_loop] in E.
        destruct (exec gp body (upd s1 (xi, []) (li + k * ti))) as [sa ta ca| |] eqn:Eb; try discriminate.
        destruct (plain_exec _ _ _ _ _ _ Hplain Eb) as [-> Va].
        apply prepend_ok_inv in E as [tr0 [E ->]].
        destruct (exec_steq _ _ _ _ _ _ _ (body_store_steq s1 s2 vo (li + k * ti) A Hv) Eb) as [sb [Fb Sb]].
        assert (Hva : val sa (xo, []) = vo).
        { rewrite (exec_unchanged_names _ _ _ _ _ _ (xo, []) Eb Hwo).
          rewrite val_upd_other by (intro Q; inversion Q; congruence). exact Hv. }
        destruct (IH (k + 1) sa sb s1' tr0 c (steq_agree _ _ Sb) Hva E) as [s2' [tr2 [F2 [A2 [Hv2 [-> [V1 V2]]]]]]].
        unfold ivals. cbn [zseq map]. fold (ivals li ti (k + 1) n). cbn [seq_runs].
        rewrite pair_run_eq, Fb. unfold then_run. cbn [prepend bind_run]. rewrite F2. cbn [prepend].
        eexists. eexists. split; [reflexivity|]. split; [exact A2|]. split; [exact Hv2|]. split; [reflexivity|].
        split.
        + change (Wr (xi, []) :: ta) with ([Wr (xi, [])] ++ ta). rewrite !vis_app, Va, V1. reflexivity.
        + rewrite !vis_app, Va, V2. reflexivity.
    Qed.

    Lemma row_bwd : forall n k s1 s2 s2' tr2 c2,
      agree X s1 s2 -> val s1 (xo, []) = vo ->
      seq_runs (map pair_run (map (mk vo) (ivals li ti k n))) s2 = Ok s2' tr2 c2 ->
      exists s1' tr, do_loop (exec gp body) xi li ti n k s1 = Ok s1' tr CNormal /\
                     agree X s1' s2' /\ val s1' (xo, []) = vo /\ c2 = CNormal /\ vis tr = [] /\ vis tr2 = [].
    Proof.
      induction n as [|n IH]; intros k s1 s2 s2' tr2 c2 A Hv E.
      - cbn [ivals zseq map seq_runs] in E. inversion E; subst. eexists. eexists. cbn [do_loop].
        split; [reflexivity|]. split; [apply agree_upd_l; [exact A|exact Hxi]|].
        split; [rewrite val_upd_other by (intro Q; inversion Q; congruence); reflexivity|auto].
      - unfold ivals in E. cbn [zseq map] in E. fold (ivals li ti (k + 1) n) in E. cbn [seq_runs] in E.
        rewrite pair_run_eq in E.
        destruct (exec gp body (upd (upd s2 (x1, []) (fst (mk vo (li + k * ti)))) (x2, []) (snd (mk vo (li + k * ti)))))
          as [sb tb cb| |] eqn:Fb; [|cbn [prepend then_run bind_run] in E; discriminate..].
        destruct (plain_exec _ _ _ _ _ _ Hplain Fb) as [-> Vb].
        unfold then_run in E. cbn [prepend bind_run] in E. apply prepend_ok_inv in E as [tr0 [E ->]].
        destruct (exec_steq _ _ _ _ _ _ _ (steq_sym _ _ (body_store_steq s1 s2 vo (li + k * ti) A Hv)) Fb) as [sa [Eb Sa]].
        assert (Hva : val sa (xo, []) = vo).
        { rewrite (exec_unchanged_names _ _ _ _ _ _ (xo, []) Eb Hwo).
          rewrite val_upd_other by (intro Q; inversion Q; congruence). exact Hv. }
        destruct (IH (k + 1) sa sb s2' tr0 c2 (steq_agree _ _ (steq_sym _ _ Sa)) Hva E) as [s1' [tr [F1 [A1 [Hv1 [-> [V1 V2]]]]]]].
        cbn [do_loop]. rewrite Eb, F1. cbn [prepend].
        eexists. eexists. split; [reflexivity|]. split; [exact A1|]. split; [exact Hv1|]. split; [reflexivity|].
        split.
        + change (Wr (xi, []) :: tb) with ([Wr (xi, [])] ++ tb). rewrite !vis_app, Vb, V1. reflexivity.
        + rewrite !vis_app, Vb, V2. reflexivity.
    Qed.
  End Row.

  (* the whole nest *)
  Variables (li hi ti : Z).
  Hypothesis Hti : ti <> 0.
  Let inner := SDo xi (ELit li) (ELit hi) (ELit ti) body.
  Let Vi := ivals li ti 0 (trip_count li hi ti).

  Lemma inner_exec s :
    exec (S gp) [inner] s = prepend (rds []) (do_loop (exec gp body) xi li ti (trip_count li hi ti) 0 s).
  Proof. unfold inner, gp. apply (exec_do gq xi (ELit li) (ELit hi) (ELit ti) body s li hi ti eq_refl eq_refl eq_refl Hti). Qed.

  Lemma nest_fwd lo to : forall n k s1 s2 s1' tr c,
    agree X s1 s2 -> do_loop (exec (S gp) [inner]) xo lo to n k s1 = Ok s1' tr c ->
    exists s2' tr2, seq_runs (map pair_run (flat_map (fun vo => map (mk vo) Vi) (ivals lo to k n))) s2 = Ok s2' tr2 CNormal /\
                    agree X s1' s2' /\ c = CNormal /\ vis tr = [] /\ vis tr2 = [].
  Proof.
    induction n as [|n IH]; intros k s1 s2 s1' tr c A E.
    - cbn [do_loop] in E. inversion E; subst. exists s2, []. cbn [ivals zseq map flat_map seq_runs].
      split; [reflexivity|]. split; [apply agree_upd_l; [exact A|exact Hxo]|auto].
    - cbn [do_loop] in E. rewrite inner_exec in E.
      destruct (do_loop (exec gp body) xi li ti (trip_count li hi ti) 0 (upd s1 (xo, []) (lo + k * to)))
        as [sa ta ca| |] eqn:Er; try discriminate.
      destruct (row_fwd li ti (lo + k * to) _ _ _ s2 _ _ _ (agree_upd_l _ _ _ _ _ A Hxo) (val_upd_same _ _ _) Er)
        as [s2a [t2a [Fa [Aa [_ [-> [Va V2a]]]]]]].
      cbn [prepend rds map app] in E. apply prepend_ok_inv in E as [tr0 [E ->]].
      destruct (IH (k + 1) sa s2a s1' tr0 c Aa E) as [s2' [tr2 [F2 [A2 [-> [V1 V2]]]]]].
      unfold ivals. cbn [zseq map flat_map]. fold (ivals lo to (k + 1) n). rewrite map_app, seq_runs_app.
      unfold Vi. rewrite Fa. unfold then_run. cbn [bind_run]. fold Vi. rewrite F2. cbn [prepend].
      eexists. eexists. split; [reflexivity|]. split; [exact A2|]. split; [reflexivity|]. split.
      + change (Wr (xo, []) :: ta) with ([Wr (xo, [])] ++ ta). rewrite !vis_app, Va, V1. reflexivity.
      + rewrite vis_app, V2a, V2. reflexivity.
  Qed.

  Lemma nest_bwd lo to : forall n k s1 s2 s2' tr2 c2,
    agree X s1 s2 ->
    seq_runs (map pair_run (flat_map (fun vo => map (mk vo) Vi) (ivals lo to k n))) s2 = Ok s2' tr2 c2 ->
    exists s1' tr, do_loop (exec (S gp) [inner]) xo lo to n k s1 = Ok s1' tr CNormal /\
                   agree X s1' s2' /\ vis tr = [] /\ vis tr2 = [].
  Proof.
    induction n as [|n IH]; intros k s1 s2 s2' tr2 c2 A E.
    - cbn [ivals zseq map flat_map seq_runs] in E. inversion E; subst. eexists. eexists. cbn [do_loop].
      split; [reflexivity|]. split; [apply agree_upd_l; [exact A|exact Hxo]|auto].
    - unfold ivals in E. cbn [zseq map flat_map] in E. fold (ivals lo to (k + 1) n) in E.
      rewrite map_app, seq_runs_app in E.
      destruct (seq_runs (map pair_run (map (mk (lo + k * to)) Vi)) s2) as [s2a t2a c2a| |] eqn:Fa;
        [|cbn [then_run bind_run] in E; discriminate..].
      destruct (row_bwd li ti (lo + k * to) _ _ (upd s1 (xo, []) (lo + k * to)) s2 _ _ _
                  (agree_upd_l _ _ _ _ _ A Hxo) (val_upd_same _ _ _) Fa)
        as [sa [ta [Er [Aa [_ [-> [Va V2a]]]]]]].
      unfold then_run in E. cbn [bind_run] in E. apply prepend_ok_inv in E as [tr0 [E ->]].
      destruct (IH (k + 1) sa s2a s2' tr0 c2 Aa E) as [s1' [tr [F1 [A1 [V1 V2]]]]].
      cbn [do_loop]. rewrite inner_exec. rewrite Er. cbn [prepend rds map app]. rewrite F1. cbn [prepend].
      eexists. eexists. split; [reflexivity|]. split; [exact A1|]. split.
      + change (Wr (xo, []) :: ta) with ([Wr (xo, [])] ++ ta). rewrite !vis_app, Va, V1. reflexivity.
      + rewrite vis_app, V2a, V2. reflexivity.
  Qed.
End Nest.

(* ------------------------------------------------------------------------------------------ *)
(** * (c) interchange under a semantic independence premise *)

(* The iterations (i, j), each run from the store st the nest starts from, succeed; no iteration writes a
   location another one reads upward-exposed; only the two DO variables are written by several iterations.
   (This is the premise of Fort/Facts2.seq_runs_perm; gq + 1 is the fuel given to the body.) *)
Definition swap_indep (x1 x2 : name) (body : list stmt) (gq : nat) (V1 V2 : list Z) (st : store) : Prop :=
  exists (sts : Z * Z -> store) (trs : Z * Z -> list event),
    (forall p, In p (rowmajor V1 V2) -> pair_run x1 x2 body gq p st = Ok (sts p) (trs p) CNormal) /\
    (forall i j l, In i (rowmajor V1 V2) -> In j (rowmajor V1 V2) -> i <> j ->
                   In l (writes (trs i)) -> ~ In l (exposed (trs j))) /\
    (forall i j l, In i (rowmajor V1 V2) -> In j (rowmajor V1 V2) -> i <> j ->
                   In l (writes (trs i)) -> In l (writes (trs j)) -> In l (xlocs [x1; x2])).

Lemma swap_indep_mono x1 x2 body gq gq' V1 V2 st :
  (gq <= gq')%nat -> swap_indep x1 x2 body gq V1 V2 st -> swap_indep x1 x2 body gq' V1 V2 st.
Proof.
  intros L [sts [trs [H1 [H2 H3]]]]. exists sts, trs. split; [|split; assumption].
  intros p Hp. specialize (H1 p Hp). rewrite pair_run_eq in H1 |- *.
  destruct (exec (S gq) body _) as [sa ta ca| |] eqn:E; try discriminate.
  rewrite (exec_mono _ (S gq') _ _ _ E (ok_not_oof _ _ _)) by lia. exact H1.
Qed.

Theorem swap_sound_partial x1 x2 l1 h1 t1 l2 h2 t2 body gq seg' f st s' tr c :
  x1 <> x2 -> ~ In x1 (wnames body) -> ~ In x2 (wnames body) -> plain body = true -> t2 <> 0 ->
  swap_at (SDo x1 (ELit l1) (ELit h1) (ELit t1) [SDo x2 (ELit l2) (ELit h2) (ELit t2) body]) = Some seg' ->
  swap_indep x1 x2 body gq (ivals l1 t1 0 (trip_count l1 h1 t1)) (ivals l2 t2 0 (trip_count l2 h2 t2)) st ->
  exec f [SDo x1 (ELit l1) (ELit h1) (ELit t1) [SDo x2 (ELit l2) (ELit h2) (ELit t2) body]] st = Ok s' tr c ->
  exists f' s'' tr', exec f' seg' st = Ok s'' tr' c /\ agree [x1; x2] s' s'' /\ vis tr' = vis tr.
Proof.
  intros Hx12 Hw1 Hw2 Hp Ht2 Hsw Hind E.
  cbn [swap_at] in Hsw. destruct (swap_ok _); [|discriminate]. injection Hsw as <-.
  set (V1 := ivals l1 t1 0 (trip_count l1 h1 t1)) in *. set (V2 := ivals l2 t2 0 (trip_count l2 h2 t2)) in *.
  apply exec_do_inv in E as [f0 [l [h [t [tr0 [-> [E1 [E2 [E3 [Ht1 [E ->]]]]]]]]]]].
  cbn [eval] in E1, E2, E3. injection E1 as <-. injection E2 as <-. injection E3 as <-.
  set (G := Nat.max gq f0).
  apply (swap_indep_mono _ _ _ gq G) in Hind; [|lia].
  apply (do_loop_mono_exec _ (S (S G))) in E; [|discriminate|lia].
  (* the nest as the row-major sequence of iterations *)
  destruct (nest_fwd x1 x2 body G Hp x1 x2 pair Hx12 Hw1 (or_introl eq_refl) (or_intror (or_introl eq_refl))
              (fun s vo vi => steq_refl _) l2 h2 t2 Ht2 l1 t1 _ 0 st st s' tr0 c (agree_refl _ st) E)
    as [sA' [trA [FA [AA [-> [V0 _]]]]]].
  fold V2 V1 in FA. change (flat_map (fun vo => map (pair vo) V2) V1) with (rowmajor V1 V2) in FA.
  (* reorder the iterations *)
  destruct Hind as [sts [trs [H1 [H2 H3]]]].
  assert (ND : NoDup (rowmajor V1 V2)) by (apply rowmajor_NoDup; apply ivals_NoDup; assumption).
  destruct (seq_runs_perm (pair_run x1 x2 body G) sts trs (fun l0 => In l0 (xlocs [x1; x2])) st
              (rowmajor V1 V2) (colmajor V1 V2) ND (row_col_perm V1 V2)
              (fun i _ => pair_run_frame x1 x2 body G i) H1 H2 H3)
    as [sA [sB [RA [RB [BA [BB [AB _]]]]]]].
  rewrite FA in RA. injection RA as -> _.
  (* the column-major sequence is the interchanged nest *)
  destruct (nest_bwd x1 x2 body G Hp x2 x1 (fun vo vi => (vi, vo)) (fun Q => Hx12 (eq_sym Q)) Hw2
              (or_intror (or_introl eq_refl)) (or_introl eq_refl)
              (fun s vo vi => upd_comm s (x2, []) (x1, []) vo vi ltac:(intro Q; inversion Q; congruence))
              l1 h1 t1 Ht1 l2 t2 (trip_count l2 h2 t2) 0 st st sB _ _ (agree_refl _ st) RB)
    as [sC [trC [FC [AC [VC _]]]]].
  pose proof (exec_do (S G) x2 (ELit l2) (ELit h2) (ELit t2) [SDo x1 (ELit l1) (ELit h1) (ELit t1) body]
                st l2 h2 t2 eq_refl eq_refl eq_refl Ht2) as Ed.
  rewrite FC in Ed. cbn [prepend] in Ed.
  eexists. eexists. eexists. split; [exact Ed|]. split.
  - eapply agree_trans; [exact AA|]. eapply agree_trans; [|apply agree_sym, AC].
    split; [congruence|]. intros l0 N. symmetry. apply AB, N.
  - rewrite !vis_app, !vis_rds, VC, V0. reflexivity.
Qed.

(* ------------------------------------------------------------------------------------------ *)
(** * Non-vacuity: do j = 1,2 { do i = 1,2 { d(i,j) = e(i,j) + 1 } } from the empty store *)

Definition swap_ex_body : list stmt :=
  [SAssign 13%nat [EVar 0%nat; EVar 1%nat] (EBin Add (EIdx 14%nat [EVar 0%nat; EVar 1%nat]) (ELit 1))].
Definition swap_ex_store : store := store_of [] [].
Definition swap_ex_run (p : Z * Z) : outcome := pair_run 1%nat 0%nat swap_ex_body 1 p swap_ex_store.
Definition swap_ex_trs (p : Z * Z) : list event := match swap_ex_run p with Ok _ tr _ => tr | _ => [] end.
Definition swap_ex_sts (p : Z * Z) : store := match swap_ex_run p with Ok s _ _ => s | _ => swap_ex_store end.

Example swap_nonvacuous :
  swap_at (SDo 1%nat (ELit 1) (ELit 2) (ELit 1) [SDo 0%nat (ELit 1) (ELit 2) (ELit 1) swap_ex_body]) =
    Some [SDo 0%nat (ELit 1) (ELit 2) (ELit 1) [SDo 1%nat (ELit 1) (ELit 2) (ELit 1) swap_ex_body]] /\
  plain swap_ex_body = true /\
  swap_indep 1%nat 0%nat swap_ex_body 1 (ivals 1 1 0 (trip_count 1 2 1)) (ivals 1 1 0 (trip_count 1 2 1)) swap_ex_store.
Proof.
  split; [reflexivity|]. split; [reflexivity|].
  exists swap_ex_sts, swap_ex_trs.
  change (rowmajor (ivals 1 1 0 (trip_count 1 2 1)) (ivals 1 1 0 (trip_count 1 2 1))) with [(1, 1); (1, 2); (2, 1); (2, 2)].
  split; [|split].
  - intros p [<-|[<-|[<-|[<-|[]]]]]; reflexivity.
  - intros i j l Hi Hj Nij Hw He.
    destruct Hi as [<-|[<-|[<-|[<-|[]]]]]; destruct Hj as [<-|[<-|[<-|[<-|[]]]]]; try (exfalso; apply Nij; reflexivity);
      vm_compute in Hw, He; repeat (destruct Hw as [Hw|Hw]; [subst l|]); try contradiction;
      repeat (destruct He as [He|He]; [try discriminate|]); try contradiction.
  - intros i j l Hi Hj Nij Hw1 Hw2.
    destruct Hi as [<-|[<-|[<-|[<-|[]]]]]; destruct Hj as [<-|[<-|[<-|[<-|[]]]]]; try (exfalso; apply Nij; reflexivity);
      vm_compute in Hw1, Hw2; repeat (destruct Hw1 as [Hw1|Hw1]; [subst l|]); try contradiction;
      repeat (destruct Hw2 as [Hw2|Hw2]; [try discriminate; try (vm_compute; tauto)|]); try contradiction.
Qed.
