(* C05 — HoistLoopBoundExprTrans: full soundness.  Fortran evaluates the DO bounds once, before the
   loop; assigning them to fresh scalars in front of the loop therefore changes nothing but those
   scalars. *)
From Coq Require Import List ZArith Bool Lia.
Import ListNotations.
From PV Require Import Fort.Syntax Fort.Sem Fort.Facts Fort.Facts3 C05.Model C05.Equiv.
Open Scope Z_scope.

Definition hb_pre (flag : bool) (n : name) (e : expr) : list stmt :=
  if flag then [] else [SAssign n [] e].
Definition hb_e (flag : bool) (n : name) (e : expr) : expr := if flag then e else EVar n.

Lemma hoistbound_at_eq n1 n2 n3 x lo hi st body :
  hoistbound_at n1 n2 n3 (SDo x lo hi st body) =
  Some (hb_pre (simple_bound st) n3 st ++ hb_pre (simple_bound hi) n2 hi ++ hb_pre (simple_bound lo) n1 lo ++
        [SDo x (hb_e (simple_bound lo) n1 lo) (hb_e (simple_bound hi) n2 hi) (hb_e (simple_bound st) n3 st) body]).
Proof. reflexivity. Qed.

(* executing one (possibly empty) hoisted assignment *)
Lemma hb_pre_exec X flag n e s1 s2 v :
  agree X s1 s2 -> In n X -> nomention X (enames e) -> eval s1 e = Some v ->
  exists s2' tr, exec 2 (hb_pre flag n e) s2 = Ok s2' tr CNormal /\ agree X s1 s2' /\ vis tr = [] /\
                 (flag = false -> val s2' (n, []) = v) /\
                 (forall m, m <> n -> val s2' (m, []) = val s2 (m, [])).
Proof.
  intros A Hn N Ev. destruct flag; cbn [hb_pre].
  - exists s2, []. split; [reflexivity|]. split; [exact A|]. split; [reflexivity|]. split; [discriminate|reflexivity].
  - destruct (eval_agree X s1 s2 e A N) as [E2 _]. rewrite Ev in E2.
    exists (upd s2 (n, []) v), (rds (ereads s2 e ++ flat_map (ereads s2) []) ++ [Wr (n, [])]). split.
    + apply (exec_assign 0 n [] e s2 [] v); [reflexivity|exact E2].
    + split; [apply agree_upd_r; assumption|]. split.
      * rewrite vis_rds_app. reflexivity.
      * split; [intros _; apply val_upd_same|].
        intros m Nm. apply val_upd_other. intro H. inversion H. contradiction.
Qed.

Lemma hb_e_eval X flag n e s1 s2 v :
  agree X s1 s2 -> nomention X (enames e) -> eval s1 e = Some v ->
  (flag = false -> val s2 (n, []) = v) ->
  eval s2 (hb_e flag n e) = Some v /\ vis (rds (ereads s2 (hb_e flag n e))) = [].
Proof.
  intros A N Ev Hv. split; [|apply vis_rds]. destruct flag; cbn [hb_e].
  - destruct (eval_agree X s1 s2 e A N) as [E2 _]. congruence.
  - cbn [eval]. rewrite Hv; reflexivity.
Qed.

Theorem hoistbound_local n1 n2 n3 s seg' :
  NoDup [n1; n2; n3] -> hoistbound_at n1 n2 n3 s = Some seg' ->
  nomention [n1; n2; n3] (rnames [s]) -> sim [n1; n2; n3] [s] seg'.
Proof.
  intros ND H N. destruct s as [ | |x lo hi st body| | | | | | ]; try discriminate.
  rewrite hoistbound_at_eq in H. injection H as <-.
  set (X := [n1; n2; n3]) in *.
  cbn [rnames flat_map rnames_stmt] in N. rewrite app_nil_r in N.
  apply nomention_app in N as [Nlo N]. apply nomention_app in N as [Nhi N]. apply nomention_app in N as [Nst Nb].
  assert (D12 : n1 <> n2 /\ n1 <> n3 /\ n2 <> n3).
  { inversion ND as [|? ? H1 H2]; subst. inversion H2 as [|? ? H3 H4]; subst. cbn [In] in *. repeat split; intro; subst; tauto. }
  destruct D12 as [D12 [D13 D23]].
  intros f s1 s2 s1' tr c A E.
  apply exec_do_inv in E as [f0 [l [h [t [tr0 [-> [E1 [E2 [E3 [Nt [E ->]]]]]]]]]]].
  destruct (hb_pre_exec X (simple_bound st) n3 st s1 s2 t A) as [sa [ta [Fa [Aa [Va [Wa Ua]]]]]];
    [cbn; auto|exact Nst|exact E3|].
  destruct (hb_pre_exec X (simple_bound hi) n2 hi s1 sa h Aa) as [sb [tb [Fb [Ab [Vb [Wb Ub]]]]]];
    [cbn; auto|exact Nhi|exact E2|].
  destruct (hb_pre_exec X (simple_bound lo) n1 lo s1 sb l Ab) as [sc [tc [Fc [Ac [Vc [Wc Uc]]]]]];
    [cbn; auto|exact Nlo|exact E1|].
  destruct (hb_e_eval X (simple_bound lo) n1 lo s1 sc l Ac Nlo E1 Wc) as [L1 L2].
  destruct (hb_e_eval X (simple_bound hi) n2 hi s1 sc h Ac Nhi E2) as [H1 H2].
  { intro Fl. rewrite Uc by (intro; apply D12; congruence). apply Wb, Fl. }
  destruct (hb_e_eval X (simple_bound st) n3 st s1 sc t Ac Nst E3) as [T1 T2].
  { intro Fl. rewrite Uc by (intro; apply D13; congruence). rewrite Ub by (intro; apply D23; congruence). apply Wa, Fl. }
  destruct (sim_do_loop X body body x l t (sim_refl X body Nb) _ _ _ _ _ _ _ _ Ac E) as [f1 [s2' [tr' [F1 [A1 W1]]]]].
  pose proof (exec_do f1 x _ _ _ body sc l h t L1 H1 T1 Nt) as Ed.
  rewrite (do_loop_mono_exec _ (S f1) _ _ _ _ _ _ _ _ F1 (ok_not_oof _ _ _)) in Ed by lia. cbn [prepend] in Ed.
  exists (2 + (2 + (2 + S (S f1))))%nat, s2'. eexists. split.
  - eapply exec_app_ok; [exact Fa|]. eapply exec_app_ok; [exact Fb|]. eapply exec_app_ok; [exact Fc|exact Ed].
  - split; [exact A1|]. rewrite !vis_app, Va, Vb, Vc, !vis_rds, W1. reflexivity.
Qed.

(* full statement: for every program, every loop in it and every store — provided the three symbols
   created by symbol_table.new_symbol are distinct and do not occur (are not read) in the program *)
Theorem hoistbound_sound n1 n2 n3 path p p' :
  NoDup [n1; n2; n3] -> nomention [n1; n2; n3] (rnames p) ->
  hoistbound_apply n1 n2 n3 path p = Some p' -> sim [n1; n2; n3] p p'.
Proof.
  intros ND N H. unfold hoistbound_apply, rw1 in H.
  eapply rw_sim_fresh; [|exact H|exact N].
  intros seg seg' HF Ns. destruct seg as [|s [|s2 seg]]; try discriminate.
  apply hoistbound_local; assumption.
Qed.

(* non-vacuity: do i = n+1, min(m, a(2)), s*2 ; a(i) = 0 *)
Definition hb_example : list stmt :=
  [SDo 0%nat (EBin Add (EVar 1%nat) (ELit 1)) (EIntr IMin [EVar 2%nat; EIdx 3%nat [ELit 2]]) (EBin Mul (EVar 4%nat) (ELit 2))
       [SAssign 3%nat [EVar 0%nat] (ELit 0)]].

Example hoistbound_nonvacuous :
  NoDup [10%nat; 11%nat; 12%nat] /\ nomentionb [10%nat; 11%nat; 12%nat] (rnames hb_example) = true /\
  hoistbound_apply 10%nat 11%nat 12%nat [0%nat] hb_example =
  Some [SAssign 12%nat [] (EBin Mul (EVar 4%nat) (ELit 2));
        SAssign 11%nat [] (EIntr IMin [EVar 2%nat; EIdx 3%nat [ELit 2]]);
        SAssign 10%nat [] (EBin Add (EVar 1%nat) (ELit 1));
        SDo 0%nat (EVar 10%nat) (EVar 11%nat) (EVar 12%nat) [SAssign 3%nat [EVar 0%nat] (ELit 0)]].
Proof.
  split; [|split; reflexivity].
  repeat constructor; cbn [In]; intro H; repeat (destruct H as [H|H]; [discriminate|]); exact H.
Qed.
