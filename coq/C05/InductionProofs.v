(* C05 — ReplaceInductionVariablesTrans: soundness under a computable sufficient condition
   (induction_sound_partial): literal bounds with trip count >= 1, the body is the induction assignment
   v = rhs followed by assignments only (no EXIT/CYCLE/RETURN, no nested blocks), rhs reads nothing the
   body writes (it may read the loop variable), v is not written again and not used as an array, and the
   model's algorithm yields exactly the single replacement (checked by computation in the condition).
   Excluded names: none (sim []).  The refutations are in Refuted.v. *)
From Coq Require Import List ZArith Bool Lia.
Import ListNotations.
From PV Require Import Fort.Syntax Fort.Sem Fort.Facts Fort.Facts3 C05.Model C05.Equiv C05.Fuse C05.HoistProofs.
Open Scope Z_scope.

(* ------------------------------------------------------------------------------------------ *)
(** * Soundness of the syntactic equality tests *)

Lemma exprs_eqb_eq : forall a b, exprs_eqb a b = true -> a = b.
Proof.
  induction a as [|e a IH]; intros [|e' b] H; try discriminate; [reflexivity|].
  cbn [exprs_eqb] in H. apply andb_true_iff in H as [H1 H2]. f_equal; [apply expr_eqb_eq, H1|apply IH, H2].
Qed.

Lemma stmt_eqb_eq : forall a b, stmt_eqb a b = true -> a = b.
Proof.
  assert (L : forall l, Forall (fun a => forall b, stmt_eqb a b = true -> a = b) l ->
              forall l', (fix go (l1 l2 : list stmt) : bool :=
                            match l1, l2 with
                            | [], [] => true
                            | u :: l1', v :: l2' => stmt_eqb u v && go l1' l2'
                            | _, _ => false
                            end) l l' = true -> l = l').
  { induction 1 as [|a l Ha _ IH]; intros [|b l'] H; try discriminate; [reflexivity|].
    apply andb_true_iff in H as [H1 H2]. f_equal; [apply Ha, H1|apply IH, H2]. }
  induction a as [x ix e|c th el Ht He|x lo hi st body Hb| | | |es|r body Hb|d body Hb] using stmt_ind';
    intros b H; destruct b; cbn [stmt_eqb] in H; try discriminate; try reflexivity.
  - apply andb_true_iff in H as [H H3]. apply andb_true_iff in H as [H1 H2].
    apply Nat.eqb_eq in H1. apply exprs_eqb_eq in H2. apply expr_eqb_eq in H3. congruence.
  - apply andb_true_iff in H as [H H3]. apply andb_true_iff in H as [H1 H2].
    apply expr_eqb_eq in H1. rewrite (L _ Ht _ H2), (L _ He _ H3). congruence.
  - repeat (apply andb_true_iff in H as [H ?]). apply Nat.eqb_eq in H.
    repeat match goal with Hx : expr_eqb _ _ = true |- _ => apply expr_eqb_eq in Hx end.
    match goal with Hx : _ body _ = true |- _ => rewrite (L _ Hb _ Hx) end. congruence.
  - apply exprs_eqb_eq in H. congruence.
  - apply andb_true_iff in H as [H1 H2]. apply Nat.eqb_eq in H1. rewrite (L _ Hb _ H2). congruence.
  - apply andb_true_iff in H as [H1 H2]. apply Nat.eqb_eq in H1. rewrite (L _ Hb _ H2). congruence.
Qed.

Lemma stmts_eqb_eq : forall a b, stmts_eqb a b = true -> a = b.
Proof.
  induction a as [|s a IH]; intros [|s' b] H; try discriminate; [reflexivity|].
  cbn [stmts_eqb] in H. apply andb_true_iff in H as [H1 H2]. f_equal; [apply stmt_eqb_eq, H1|apply IH, H2].
Qed.

(* ------------------------------------------------------------------------------------------ *)
(** * Substitution of a scalar by an expression *)

(* names used as arrays (EIdx) or as the inquired argument of LBOUND/UBOUND/SIZE *)
Fixpoint arrnames (e : expr) : list name :=
  match e with
  | ELit _ | EVar _ => []
  | EIdx a ix => a :: flat_map arrnames ix
  | EUn _ e1 => arrnames e1
  | EBin _ l r => arrnames l ++ arrnames r
  | EIntr f args =>
      (if is_inquiry f then match args with EVar a :: _ => [a] | _ => [] end else []) ++ flat_map arrnames args
  end.

Section Subst.
  Variables (z : name) (r : expr) (s1 s2 : store).
  (* s2 = s1 except at the scalar z, and r evaluates in s2 to the value z has in s1 *)
  Hypothesis Hb : bnd s2 = bnd s1.
  Hypothesis Ho : forall l, l <> (z, []) -> val s2 l = val s1 l.
  Hypothesis Hr : eval s2 r = Some (val s1 (z, [])).

  Lemma esubst_eval : forall e, ~ In z (arrnames e) -> eval s2 (esubst z r e) = eval s1 e.
  Proof.
    induction e as [c|y|a ix IH|o e IH|o l rr IHl IHr|f args IH] using expr_ind'; intro N; cbn [esubst eval].
    - reflexivity.
    - destruct (Nat.eqb y z) eqn:E.
      + apply Nat.eqb_eq in E. subst y. exact Hr.
      + apply Nat.eqb_neq in E. cbn [eval]. rewrite Ho; [reflexivity|]. intro Q. inversion Q. contradiction.
    - cbn [arrnames] in N.
      assert (M : map (eval s2) (map (esubst z r) ix) = map (eval s1) ix).
      { rewrite map_map. assert (N' : ~ In z (flat_map arrnames ix)) by (intro Q; apply N; right; exact Q).
        clear N. induction IH as [|e0 ix0 He _ IHix]; [reflexivity|]. cbn [map flat_map] in *.
        rewrite He by (intro Q; apply N'; apply in_or_app; left; exact Q).
        rewrite IHix by (intro Q; apply N'; apply in_or_app; right; exact Q). reflexivity. }
      rewrite M. destruct (opt_all (map (eval s1) ix)) as [vs|]; [|reflexivity].
      rewrite Ho; [reflexivity|]. intro Q. inversion Q. subst. apply N. left; reflexivity.
    - rewrite IH by exact N. reflexivity.
    - cbn [arrnames] in N. rewrite IHl by (intro Q; apply N, in_or_app; left; exact Q).
      rewrite IHr by (intro Q; apply N, in_or_app; right; exact Q). reflexivity.
    - cbn [arrnames] in N.
      assert (N2 : ~ In z (flat_map arrnames args)) by (intro Q; apply N, in_or_app; right; exact Q).
      assert (M : forall l0, Forall (fun e => ~ In z (arrnames e) -> eval s2 (esubst z r e) = eval s1 e) l0 ->
                  ~ In z (flat_map arrnames l0) -> map (eval s2) (map (esubst z r) l0) = map (eval s1) l0).
      { induction 1 as [|e0 l0 He _ IHl0]; intro N0; [reflexivity|]. cbn [map flat_map] in *.
        rewrite He by (intro Q; apply N0; apply in_or_app; left; exact Q).
        rewrite IHl0 by (intro Q; apply N0; apply in_or_app; right; exact Q). reflexivity. }
      destruct (is_inquiry f) eqn:Ei.
      + destruct args as [|a0 rest]; [reflexivity|]. cbn [map].
        inversion IH as [|? ? Ha0 Hrest]; subst.
        cbn [flat_map] in N2.
        rewrite (M rest Hrest) by (intro Q; apply N2, in_or_app; right; exact Q).
        destruct (opt_all (map (eval s1) rest)) as [vs|]; [|reflexivity].
        (* the inquired array name is unchanged *)
        assert (Hd : forall a d, dim_of s2 a d = dim_of s1 a d) by (intros; unfold dim_of; rewrite Hb; reflexivity).
        destruct a0 as [c|y|a ix|o e|o l rr|g args']; cbn [esubst]; try reflexivity.
        destruct (Nat.eqb y z) eqn:E.
        * apply Nat.eqb_eq in E. subst y. exfalso. apply N. left; reflexivity.
        * destruct f; try discriminate; cbn [eval_intr]; destruct vs as [|d [|]]; try reflexivity; rewrite Hd; reflexivity.
      + rewrite (M args IH N2). destruct (opt_all (map (eval s1) args)) as [vs|]; [|reflexivity].
        destruct f; try discriminate; reflexivity.
  Qed.
End Subst.

(* ------------------------------------------------------------------------------------------ *)
(** * A block of assignments with the induction variable replaced *)

Lemma vis_cons_wr l t : vis (Wr l :: t) = vis t.
Proof. reflexivity. Qed.

Definition is_assign (s : stmt) : bool := match s with SAssign _ _ _ => true | _ => false end.
Definition arrnames_stmt (s : stmt) : list name :=
  match s with SAssign _ ix e => flat_map arrnames ix ++ arrnames e | _ => [] end.

Section Ind.
  Variables (v x : name) (rhs : expr).
  Hypothesis Hvx : v <> x.
  Hypothesis Hv_rhs : ~ In v (enames rhs).

  (* original store s1 (v holds the value of rhs), transformed store s2 (v stale) *)
  Definition C (s1 s2 : store) : Prop :=
    bnd s2 = bnd s1 /\ (forall l, l <> (v, []) -> val s2 l = val s1 l) /\ eval s2 rhs = Some (val s1 (v, [])).
  Definition P (s1 s2 : store) : Prop :=
    bnd s2 = bnd s1 /\ forall l, l <> (v, []) -> val s2 l = val s1 l.

  Lemma eval_rhs_P s1 s2 : P s1 s2 -> eval s2 rhs = eval s1 rhs.
  Proof.
    intros [B A]. apply eval_frame; [exact B|]. intros l Hl. apply A. intro Q. subst l.
    apply Hv_rhs. apply (ereads_names _ _ _ Hl).
  Qed.

  Lemma map_subst_eval s1 s2 es : C s1 s2 -> ~ In v (flat_map arrnames es) ->
    map (eval s2) (map (esubst v rhs) es) = map (eval s1) es.
  Proof.
    intros [B [A R]] N. induction es as [|e es IH]; [reflexivity|]. cbn [map flat_map] in *.
    rewrite (esubst_eval v rhs s1 s2 B A R) by (intro Q; apply N, in_or_app; left; exact Q).
    rewrite IH by (intro Q; apply N, in_or_app; right; exact Q). reflexivity.
  Qed.

  Lemma rest_sim : forall rest f s1 s2 s1' tr c,
    forallb is_assign rest = true -> ~ In v (wnames rest) ->
    (forall nm, In nm (enames rhs) -> ~ In nm (wnames rest)) ->
    ~ In v (flat_map arrnames_stmt rest) ->
    C s1 s2 -> exec f rest s1 = Ok s1' tr c ->
    exists s2' tr', exec f (map (ssubst v rhs) rest) s2 = Ok s2' tr' c /\ C s1' s2' /\
                    c = CNormal /\ vis tr' = [] /\ vis tr = [].
  Proof.
    induction rest as [|st rest IH]; intros f s1 s2 s1' tr c Ha Hw Hr Harr HC E.
    - destruct f; [discriminate|]. cbn [exec map] in *. inversion E; subst. exists s2, []. auto.
    - destruct f as [|f]; [discriminate|]. cbn [forallb] in Ha. apply andb_true_iff in Ha as [Ha1 Ha2].
      destruct st as [a ix e| | | | | | | | ]; try discriminate.
      rewrite wnames_cons in Hw. cbn [wnames_stmt app] in Hw.
      cbn [flat_map arrnames_stmt] in Harr.
      cbn [map ssubst]. rewrite exec_cons in E |- *. cbn [exec_stmt] in E |- *.
      rewrite (map_subst_eval s1 s2 ix HC) by (intro Q; apply Harr, in_or_app; left; apply in_or_app; left; exact Q).
      destruct HC as [B [A R]].
      rewrite (esubst_eval v rhs s1 s2 B A R e) by (intro Q; apply Harr, in_or_app; left; apply in_or_app; right; exact Q).
      destruct (opt_all (map (eval s1) ix)) as [vs|]; [|discriminate].
      destruct (eval s1 e) as [w|]; [|discriminate].
      unfold then_run in E |- *. cbn [bind_run] in E |- *.
      apply prepend_ok_inv in E as [tr0 [E ->]].
      assert (Nav : (a, vs) <> (v, [])) by (intro Q; inversion Q; subst; apply Hw; left; reflexivity).
      assert (HC' : C (upd s1 (a, vs) w) (upd s2 (a, vs) w)).
      { split; [exact B|]. split.
        - intros l Nl. rewrite !val_upd. destruct (loc_eq_dec l (a, vs)); [reflexivity|apply A, Nl].
        - rewrite val_upd_other by (intro Q; apply Nav; symmetry; exact Q). rewrite <- R.
          apply eval_frame; [reflexivity|]. intros l Hl. apply val_upd_other. intro Q. subst l.
          apply (Hr a); [apply (ereads_names _ _ _ Hl)|rewrite wnames_cons; left; reflexivity]. }
      assert (Hw' : ~ In v (wnames rest)) by (intro Q; apply Hw; right; exact Q).
      assert (Hr' : forall nm, In nm (enames rhs) -> ~ In nm (wnames rest)).
      { intros nm Hn Q. apply (Hr nm Hn). rewrite wnames_cons. apply in_or_app. right; exact Q. }
      assert (Harr' : ~ In v (flat_map arrnames_stmt rest)) by (intro Q; apply Harr, in_or_app; right; exact Q).
      destruct (IH f _ _ _ _ _ Ha2 Hw' Hr' Harr' HC' E) as [s2' [tr' [F [C2 [-> [V1 V2]]]]]].
      rewrite F. cbn [prepend]. eexists. eexists. split; [reflexivity|]. split; [exact C2|].
      split; [reflexivity|]. rewrite !vis_app, !vis_rds, V1, V2. split; reflexivity.
  Qed.

  Variables (rest : list stmt) (g : nat).
  Hypothesis Hassign : forallb is_assign rest = true.
  Hypothesis Hv_w : ~ In v (wnames rest).
  Hypothesis Hx_w : ~ In x (wnames rest).
  Hypothesis Hrhs_w : forall nm, In nm (enames rhs) -> ~ In nm (wnames rest).
  Hypothesis Hv_arr : ~ In v (flat_map arrnames_stmt rest).
  Let body := SAssign v [] rhs :: rest.
  Let body' := map (ssubst v rhs) rest.

  Lemma ind_iteration k s1 s2 sa ta ca :
    P s1 s2 -> exec g body (upd s1 (x, []) k) = Ok sa ta ca ->
    exists sb tb, exec g body' (upd s2 (x, []) k) = Ok sb tb ca /\ P sa sb /\ ca = CNormal /\
                  vis tb = [] /\ vis ta = [] /\ eval (upd sa (x, []) k) rhs = Some (val sa (v, [])).
  Proof.
    intros [B A] E. unfold body in E. destruct g as [|g']; [discriminate|].
    rewrite exec_cons in E. cbn [exec_stmt map opt_all] in E.
    destruct (eval (upd s1 (x, []) k) rhs) as [r|] eqn:Er; [|discriminate].
    unfold then_run in E. cbn [bind_run] in E. apply prepend_ok_inv in E as [tr0 [E ->]].
    assert (Px : P (upd s1 (x, []) k) (upd s2 (x, []) k)).
    { split; [exact B|]. intros l Nl. rewrite !val_upd. destruct (loc_eq_dec l (x, [])); [reflexivity|apply A, Nl]. }
    assert (HC : C (upd (upd s1 (x, []) k) (v, []) r) (upd s2 (x, []) k)).
    { split; [exact B|]. split.
      - intros l Nl. rewrite (val_upd_other _ _ _ _ Nl). apply (proj2 Px), Nl.
      - rewrite val_upd_same. rewrite (eval_rhs_P _ _ Px). exact Er. }
    destruct (rest_sim rest g' _ _ _ _ _ Hassign Hv_w Hrhs_w Hv_arr HC E) as [sb [tb [F [[B2 [A2 R2]] [-> [V1 V2]]]]]].
    exists sb, tb. split; [apply (exec_mono g' (S g')); [exact F|discriminate|lia]|].
    split; [split; assumption|]. split; [reflexivity|]. split; [exact V1|]. split.
    - rewrite vis_app, vis_rds_app, V2. reflexivity.
    - rewrite (exec_unchanged_names _ _ _ _ _ _ (v, []) E Hv_w). rewrite val_upd_same. rewrite <- Er.
      apply eval_frame; [cbn [bnd upd]; apply (exec_bnd _ _ _ _ _ _ E)|].
      intros l Hl. apply ereads_names in Hl. rewrite !val_upd. destruct (loc_eq_dec l (x, [])); [reflexivity|].
      rewrite (exec_unchanged_names _ _ _ _ _ _ l E (Hrhs_w _ Hl)).
      rewrite val_upd_other; [rewrite val_upd_other by assumption; reflexivity|].
      intro Q. subst l. exact (Hv_rhs Hl).
  Qed.

  Lemma ind_loop_sim l t : forall n k s1 s2 s1' tr c,
    P s1 s2 -> do_loop (exec g body) x l t (S n) k s1 = Ok s1' tr c ->
    exists s2' tr', do_loop (exec g body') x l t (S n) k s2 = Ok s2' tr' c /\ P s1' s2' /\ c = CNormal /\
                    vis tr' = [] /\ vis tr = [] /\
                    eval (upd s1' (x, []) (l + (k + Z.of_nat n) * t)) rhs = Some (val s1' (v, [])) /\
                    val s1' (x, []) = l + (k + Z.of_nat (S n)) * t.
  Proof.
    induction n as [|n IH]; intros k s1 s2 s1' tr c HP E.
    - cbn [do_loop] in E |- *.
      destruct (exec g body (upd s1 (x, []) (l + k * t))) as [sa ta ca| |] eqn:Eb; try discriminate.
      destruct (ind_iteration _ _ _ _ _ _ HP Eb) as [sb [tb [Fb [[B2 A2] [-> [V1 [V2 L]]]]]]]. rewrite Fb.
      inversion E; subst. eexists. eexists. split; [reflexivity|]. split.
      + split; [exact B2|]. intros l0 Nl. rewrite !val_upd. destruct (loc_eq_dec l0 (x, [])); [reflexivity|apply A2, Nl].
      + split; [reflexivity|].
        split; [rewrite ?vis_cons_wr, ?vis_app, ?vis_cons_wr, V1; reflexivity|].
        split; [rewrite ?vis_cons_wr, ?vis_app, ?vis_cons_wr, V2; reflexivity|].
        rewrite val_upd_other by (intro Q; inversion Q; congruence).
        split; [|rewrite val_upd_same; reflexivity].
        rewrite <- L. cbn [Z.of_nat]. rewrite Z.add_0_r.
        apply (proj1 (eval_steq _ _ rhs (steq_sym _ _ (upd_shadow sa (x, []) (l + (k + 1) * t) (l + k * t))))).
    - remember (S n) as m eqn:Em. cbn [do_loop] in E. cbn [do_loop].
      destruct (exec g body (upd s1 (x, []) (l + k * t))) as [sa ta ca| |] eqn:Eb; try discriminate.
      destruct (ind_iteration _ _ _ _ _ _ HP Eb) as [sb [tb [Fb [HP2 [-> [V1 [V2 _]]]]]]]. rewrite Fb.
      apply prepend_ok_inv in E as [tr0 [E ->]]. subst m.
      destruct (IH _ _ _ _ _ _ HP2 E) as [s2' [tr' [F2 [P2 [-> [W1 [W2 [L2 L3]]]]]]]].
      rewrite F2. cbn [prepend]. eexists. eexists. split; [reflexivity|]. split; [exact P2|]. split; [reflexivity|].
      rewrite !vis_app, !vis_cons_wr, V1, V2, W1, W2. split; [reflexivity|]. split; [reflexivity|].
      split; [rewrite <- L2; f_equal; f_equal; lia|]. rewrite L3. f_equal. f_equal. lia.
  Qed.
End Ind.

(* ------------------------------------------------------------------------------------------ *)
(** * induction_sound_partial *)

Definition induction_expected (x : name) (l h t : Z) (v : name) (rhs : expr) (rest : list stmt) : list stmt :=
  [SDo x (ELit l) (ELit h) (ELit t) (map (ssubst v rhs) rest);
   SAssign v [] (esubst x (EBin Sub (EVar x) (ELit t)) rhs)].

Definition induction_safe_local (s : stmt) : bool :=
  match s with
  | SDo x (ELit l) (ELit h) (ELit t) (SAssign v [] rhs :: rest) =>
      negb (t =? 0) && Nat.ltb 0 (trip_count l h t) && negb (Nat.eqb v x) &&
      forallb is_assign rest && negb (mem v (enames rhs)) && negb (mem v (wnames rest)) &&
      negb (mem x (wnames rest)) && disjointb (enames rhs) (wnames rest) &&
      negb (mem v (flat_map arrnames_stmt rest)) && negb (mem x (arrnames rhs)) &&
      stmts_eqb (ind_loop (length (SAssign v [] rhs :: rest)) x (ELit l) (ELit h) (ELit t)
                          (SAssign v [] rhs :: rest) 0 [])
                (induction_expected x l h t v rhs rest)
  | _ => false
  end.

Lemma induction_local s seg' :
  induction_safe_local s = true -> induction_at s = Some seg' -> sim [] [s] seg'.
Proof.
  intros Hs Ha.
  destruct s as [ | |x lo hi st body| | | | | | ]; try discriminate.
  destruct lo as [l| | | | | ]; try discriminate. destruct hi as [h| | | | | ]; try discriminate.
  destruct st as [t| | | | | ]; try discriminate.
  destruct body as [|a rest]; try discriminate.
  destruct a as [v ix rhs| | | | | | | | ]; try discriminate. destruct ix; [|discriminate].
  cbn [induction_safe_local] in Hs. cbn [induction_at] in Ha.
  repeat (apply andb_true_iff in Hs as [Hs ?]).
  match goal with H : stmts_eqb _ _ = true |- _ => apply stmts_eqb_eq in H; rewrite H in Ha end.
  injection Ha as <-.
  assert (Nt : t <> 0) by (apply Z.eqb_neq, negb_true_iff; exact Hs).
  assert (Htrip : (0 < trip_count l h t)%nat) by (apply Nat.ltb_lt; assumption).
  assert (Hvx : v <> x) by (apply Nat.eqb_neq, negb_true_iff; assumption).
  assert (Hv_rhs : ~ In v (enames rhs)).
  { intro Hi. apply mem_In in Hi. match goal with H : negb (mem v (enames rhs)) = true |- _ => rewrite Hi in H; discriminate end. }
  assert (Hv_w : ~ In v (wnames rest)).
  { intro Hi. apply mem_In in Hi. match goal with H : negb (mem v (wnames rest)) = true |- _ => rewrite Hi in H; discriminate end. }
  assert (Hx_w : ~ In x (wnames rest)).
  { intro Hi. apply mem_In in Hi. match goal with H : negb (mem x (wnames rest)) = true |- _ => rewrite Hi in H; discriminate end. }
  assert (Hv_arr : ~ In v (flat_map arrnames_stmt rest)).
  { intro Hi. apply mem_In in Hi. match goal with H : negb (mem v (flat_map arrnames_stmt rest)) = true |- _ => rewrite Hi in H; discriminate end. }
  assert (Hx_arr : ~ In x (arrnames rhs)).
  { intro Hi. apply mem_In in Hi. match goal with H : negb (mem x (arrnames rhs)) = true |- _ => rewrite Hi in H; discriminate end. }
  assert (Hrhs_w : forall nm, In nm (enames rhs) -> ~ In nm (wnames rest)) by (apply disjointb_ok; assumption).
  assert (Hassign : forallb is_assign rest = true) by assumption.
  unfold induction_expected.
  intros f s1 s2 s1' tr c A E.
  apply exec_do_inv in E as [f0 [l' [h' [t' [tr0 [-> [E1 [E2 [E3 [_ [E ->]]]]]]]]]]].
  cbn [eval] in E1, E2, E3. injection E1 as <-. injection E2 as <-. injection E3 as <-.
  destruct (trip_count l h t) as [|n0] eqn:Etc; [lia|].
  apply agree_nil_steq in A.
  assert (HP : P v s1 s2).
  { destruct A as [A B]. split; [symmetry; exact B|]. intros l0 _. symmetry. apply A. }
  destruct (ind_loop_sim v x rhs Hvx Hv_rhs rest (S f0) Hassign Hv_w Hrhs_w Hv_arr l t n0 0 s1 s2 s1' tr0 c HP E)
    as [s2' [tr' [F2 [[B2 A2] [-> [W1 [W2 [L2 L3]]]]]]]].
  pose proof (exec_do f0 x (ELit l) (ELit h) (ELit t) (map (ssubst v rhs) rest) s2 l h t eq_refl eq_refl eq_refl Nt) as Ed.
  rewrite Etc, F2 in Ed. cbn [prepend] in Ed.
  (* the assignment after the loop *)
  set (fin := val s2' (x, [])).
  assert (Ev : eval s2' (esubst x (EBin Sub (EVar x) (ELit t)) rhs) = Some (val s1' (v, []))).
  { rewrite (esubst_eval x (EBin Sub (EVar x) (ELit t)) (upd s2' (x, []) (fin - t)) s2').
    - rewrite <- L2. apply eval_frame; [cbn [bnd upd]; exact B2|].
      intros l0 Hl. apply ereads_names in Hl. rewrite !val_upd. destruct (loc_eq_dec l0 (x, [])).
      + subst fin. rewrite A2 by (intro Q; inversion Q; congruence). rewrite L3. lia.
      + apply A2. intro Q. subst l0. exact (Hv_rhs Hl).
    - reflexivity.
    - intros l0 Nl. rewrite val_upd_other by exact Nl. reflexivity.
    - cbn [eval eval_bin]. rewrite val_upd_same. reflexivity.
    - exact Hx_arr. }
  pose proof (exec_assign 0 v [] _ s2' [] _ eq_refl Ev) as Ea.
  eexists. eexists. eexists. split; [eapply (exec_cons_ok (S (S f0)) 2); [exact Ed|exact Ea]|].
  split.
  - apply steq_agree_nil. split; [|cbn [bnd upd]; symmetry; exact B2].
    intro l0. rewrite val_upd. destruct (loc_eq_dec l0 (v, [])) as [->|Nl]; [reflexivity|symmetry; apply A2, Nl].
  - rewrite !vis_app, !vis_rds, W1, W2. reflexivity.
Qed.

Definition induction_guard (seg : list stmt) : option (list stmt) :=
  match seg with [s] => if induction_safe_local s then Some [] else None | _ => None end.

Definition induction_safe (path : list nat) (p : list stmt) : bool :=
  match rw 1 induction_guard path p with Some _ => true | None => false end.

Theorem induction_sound_partial path p p' :
  induction_safe path p = true -> induction_apply path p = Some p' -> sim [] p p'.
Proof.
  unfold induction_safe, induction_apply, rw1. intros Hs Ha.
  destruct (rw 1 induction_guard path p) as [p0|] eqn:E0; [|discriminate].
  eapply rw_sim; [|exact Ha|exact E0|intros z []].
  intros seg seg' g0 HF HG. destruct seg as [|s [|s2 seg]]; try discriminate.
  cbn [induction_guard] in HG. destruct (induction_safe_local s) eqn:Es; [|discriminate].
  injection HG as <-. split; [reflexivity|]. apply induction_local; assumption.
Qed.

(* non-vacuity:  do i = 1, 4 { m = i - 1; a(i) = m; b(m) = a(i) + m } *)
Definition induction_example : list stmt :=
  [SDo 0%nat (ELit 1) (ELit 4) (ELit 1)
     [SAssign 3%nat [] (EBin Sub (EVar 0%nat) (ELit 1));
      SAssign 10%nat [EVar 0%nat] (EVar 3%nat);
      SAssign 11%nat [EVar 3%nat] (EBin Add (EIdx 10%nat [EVar 0%nat]) (EVar 3%nat))]].

Example induction_nonvacuous :
  induction_safe [0%nat] induction_example = true /\
  induction_apply [0%nat] induction_example =
  Some [SDo 0%nat (ELit 1) (ELit 4) (ELit 1)
          [SAssign 10%nat [EVar 0%nat] (EBin Sub (EVar 0%nat) (ELit 1));
           SAssign 11%nat [EBin Sub (EVar 0%nat) (ELit 1)]
                   (EBin Add (EIdx 10%nat [EVar 0%nat]) (EBin Sub (EVar 0%nat) (ELit 1)))];
        SAssign 3%nat [] (EBin Sub (EBin Sub (EVar 0%nat) (ELit 1)) (ELit 1))].
Proof. split; reflexivity. Qed.
