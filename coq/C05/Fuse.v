(* C05 — LoopFuseTrans: soundness under a syntactic sufficient condition (fuse_sound_partial):
   same DO variable and syntactically equal bounds, both bodies "plain" (assignments, IFs, inner
   loops; no EXIT/CYCLE/RETURN, no output), and the bodies are independent at the level of names:
   neither writes a name the other reads or writes.  The refutations are in Refuted.v. *)
From Coq Require Import List ZArith Bool Lia.
Import ListNotations.
From PV Require Import Fort.Syntax Fort.Sem Fort.Facts Fort.Facts3 C05.Model C05.Equiv.
Open Scope Z_scope.

(* ------------------------------------------------------------------------------------------ *)
(** * Plain blocks complete normally and print nothing *)

Fixpoint plain_stmt (s : stmt) : bool :=
  match s with
  | SAssign _ _ _ => true
  | SIf _ th el => forallb plain_stmt th && forallb plain_stmt el
  | SDo _ _ _ _ b => forallb plain_stmt b
  | SDir _ b => forallb plain_stmt b
  | _ => false
  end.
Definition plain (ss : list stmt) : bool := forallb plain_stmt ss.

Lemma plain_do_loop (run : runner) x l t :
  (forall s s' tr c, run s = Ok s' tr c -> c = CNormal /\ vis tr = []) ->
  forall n k s s' tr c, do_loop run x l t n k s = Ok s' tr c -> c = CNormal /\ vis tr = [].
Proof.
  intros Hr. induction n as [|n IH]; intros k s s' tr c E.
  - cbn [do_loop] in E. inversion E; subst. split; reflexivity.
  - cbn [do_loop] in E. destruct (run (upd s (x, []) (l + k * t))) as [s2 tr2 c2| |] eqn:Er; try discriminate.
    destruct (Hr _ _ _ _ Er) as [-> V2]. apply prepend_ok_inv in E as [tr0 [E ->]].
    destruct (IH _ _ _ _ _ E) as [-> V0]. split; [reflexivity|].
    change (Wr (x, []) :: tr2) with ([Wr (x, [])] ++ tr2). rewrite !vis_app, V2, V0. reflexivity.
Qed.

Lemma plain_exec f : forall ss s s' tr c,
  plain ss = true -> exec f ss s = Ok s' tr c -> c = CNormal /\ vis tr = [].
Proof.
  induction f as [|f IH]; intros ss s s' tr c H E; [discriminate|].
  destruct ss as [|st rest]; [cbn [exec] in E; inversion E; auto|].
  unfold plain in H. cbn [forallb] in H. apply andb_true_iff in H as [H1 H2].
  assert (Hst : forall s0 s0' tr0 c0, exec_stmt (exec f) st s0 = Ok s0' tr0 c0 -> c0 = CNormal /\ vis tr0 = []).
  { intros s0 s0' tr0 c0 E0.
    destruct st as [x ix e|cnd th el|x lo hi st body| | | |es|r body|d body]; cbn [exec_stmt plain_stmt] in *;
      try discriminate.
    - destruct (opt_all _); [|discriminate]. destruct (eval s0 e); [|discriminate]. inversion E0; subst.
      split; [reflexivity|]. rewrite vis_rds_app. reflexivity.
    - destruct (eval s0 cnd) as [v|]; [|discriminate]. apply prepend_ok_inv in E0 as [tr1 [E0 ->]].
      apply andb_true_iff in H1 as [Ha Hb].
      destruct (IH (if v =? 0 then el else th) _ _ _ _ ltac:(destruct (v =? 0); assumption) E0) as [-> V].
      split; [reflexivity|]. rewrite vis_rds_app. exact V.
    - destruct (eval s0 lo); [|discriminate]. destruct (eval s0 hi); [|discriminate].
      destruct (eval s0 st) as [t|]; [|discriminate]. destruct (t =? 0); [discriminate|].
      apply prepend_ok_inv in E0 as [tr1 [E0 ->]].
      destruct (plain_do_loop (exec f body) x z t (fun a b c d => IH body a b c d H1) _ _ _ _ _ _ E0) as [-> V].
      split; [reflexivity|]. rewrite vis_rds_app. exact V.
    - eapply IH; [exact H1|exact E0]. }
  rewrite exec_cons in E.
  apply then_run_ok_inv in E as [[s1 [tr1 [tr2 [E1 [E2 ->]]]]]|[Nc E1]].
  - destruct (Hst _ _ _ _ E1) as [_ V1]. destruct (IH _ _ _ _ _ H2 E2) as [-> V2].
    split; [reflexivity|]. rewrite vis_app, V1, V2. reflexivity.
  - destruct (Hst _ _ _ _ E1) as [-> _]. contradiction.
Qed.

Lemma plain_iters g body x : plain body = true ->
  forall vs s s' tr c, iters (exec g body) x vs s = Ok s' tr c -> c = CNormal /\ vis tr = [].
Proof.
  intros Hp. induction vs as [|v vs IH]; intros s s' tr c E.
  - rewrite iters_nil in E. inversion E; auto.
  - rewrite iters_cons in E.
    assert (One : forall sa tra ca, iter_run (exec g body) x v s = Ok sa tra ca -> ca = CNormal /\ vis tra = []).
    { intros sa tra ca E1. apply iter_run_ok_inv in E1 as [tr0 [c0 [E1 [-> ->]]]].
      destruct (plain_exec _ _ _ _ _ _ Hp E1) as [-> V]. split; [reflexivity|exact V]. }
    apply then_run_ok_inv in E as [[s1 [tr1 [tr2 [E1 [E2 ->]]]]]|[Nc E1]].
    + destruct (One _ _ _ E1) as [_ V1]. destruct (IH _ _ _ _ E2) as [-> V2].
      split; [reflexivity|]. rewrite vis_app, V1, V2. reflexivity.
    + destruct (One _ _ _ E1) as [-> _]. contradiction.
Qed.

(* ------------------------------------------------------------------------------------------ *)
(** * Interleaving the iterations of two independent bodies *)

(* agreement on every location whose name is outside W, except the scalar x *)
Definition agreeW (W : list name) (x : name) (s1 s2 : store) : Prop :=
  bnd s2 = bnd s1 /\ forall l, ~ In (fst l) W -> l <> (x, []) -> val s2 l = val s1 l.

Section Interleave.
  Variables (x : name) (b1 b2 : list stmt) (g1 g2 : nat).
  Let W1 := wnames b1.
  Let W2 := wnames b2.
  Hypothesis H12r : forall nm, In nm W1 -> ~ In nm (rnames b2).
  Hypothesis H21r : forall nm, In nm W2 -> ~ In nm (rnames b1).
  Hypothesis Hp1 : plain b1 = true.
  Hypothesis Hp2 : plain b2 = true.

  Lemma fuse_iters : forall vs sA0 sB0 sg sA tA cA sB tB cB,
    agreeW W2 x sA0 sg -> agreeW W1 x sB0 sg ->
    iters (exec g1 b1) x vs sA0 = Ok sA tA cA -> iters (exec g2 b2) x vs sB0 = Ok sB tB cB ->
    exists sg' t', iters (exec (g1 + g2) (b1 ++ b2)) x vs sg = Ok sg' t' CNormal /\ vis t' = [] /\
                   agreeW W2 x sA sg' /\ agreeW W1 x sB sg'.
  Proof.
    induction vs as [|v vs IH]; intros sA0 sB0 sg sA tA cA sB tB cB AA AB EA EB.
    - rewrite iters_nil in *. inversion EA; inversion EB; subst. exists sg, []. auto.
    - rewrite iters_cons in EA, EB |- *.
      destruct (iter_run (exec g1 b1) x v sA0) as [sA1 tA1 cA1| |] eqn:E1;
        [|cbn [then_run bind_run] in EA; discriminate..].
      destruct (iter_run (exec g2 b2) x v sB0) as [sB1 tB1 cB1| |] eqn:E2;
        [|cbn [then_run bind_run] in EB; discriminate..].
      apply iter_run_ok_inv in E1 as [ta [ca [E1 [-> ->]]]].
      apply iter_run_ok_inv in E2 as [tb [cb [E2 [-> ->]]]].
      destruct (plain_exec _ _ _ _ _ _ Hp1 E1) as [-> Va]. destruct (plain_exec _ _ _ _ _ _ Hp2 E2) as [-> Vb].
      cbn [cyc2norm then_run bind_run] in EA, EB.
      apply prepend_ok_inv in EA as [tA' [EA _]]. apply prepend_ok_inv in EB as [tB' [EB _]].
      (* b1 on the fused store *)
      destruct AA as [BA AA], AB as [BB AB].
      destruct (exec_frame_names g1 b1 _ _ _ _ (upd sg (x, []) v) E1) as [sga [F1 [Fb1 [_ [Fp1 Fu1]]]]].
      { cbn [bnd upd]. exact BA. }
      { intros l Hl. rewrite !val_upd. destruct (loc_eq_dec l (x, [])); [reflexivity|].
        apply AA; [|assumption]. intro Hw. exact (H21r _ Hw Hl). }
      (* b2 after it *)
      destruct (exec_frame_names g2 b2 _ _ _ _ sga E2) as [sgb [F2 [Fb2 [_ [Fp2 Fu2]]]]].
      { rewrite Fb1. cbn [bnd upd]. exact BB. }
      { intros l Hl. rewrite Fu1 by (intro Hw; exact (H12r _ Hw Hl)).
        rewrite !val_upd. destruct (loc_eq_dec l (x, [])); [reflexivity|].
        apply AB; [|assumption]. intro Hw. exact (H12r _ Hw Hl). }
      assert (AA1 : agreeW W2 x sA1 sgb).
      { split.
        - rewrite Fb2, Fb1. cbn [bnd upd]. rewrite BA. symmetry. rewrite (exec_bnd _ _ _ _ _ _ E1). reflexivity.
        - intros l Nw Nx. rewrite Fu2 by exact Nw. apply Fp1. rewrite !val_upd.
          destruct (loc_eq_dec l (x, [])); [reflexivity|]. apply AA; assumption. }
      assert (AB1 : agreeW W1 x sB1 sgb).
      { split.
        - rewrite Fb2, Fb1. cbn [bnd upd]. rewrite BB. symmetry. rewrite (exec_bnd _ _ _ _ _ _ E2). reflexivity.
        - intros l Nw Nx. apply Fp2. rewrite Fu1 by exact Nw. rewrite !val_upd.
          destruct (loc_eq_dec l (x, [])); [reflexivity|]. apply AB; assumption. }
      destruct (IH _ _ _ _ _ _ _ _ _ AA1 AB1 EA EB) as [sg' [t' [F [V [A1 A2]]]]].
      pose proof (exec_app_ok g1 g2 b1 b2 _ _ _ _ _ _ F1 F2) as F12.
      exists sg', ((Wr (x, []) :: ta ++ tb) ++ t'). split.
      + rewrite (iter_run_ok _ _ _ _ _ _ _ F12). cbn [cyc2norm then_run bind_run]. rewrite F. reflexivity.
      + split; [|auto]. rewrite vis_app, V. change (Wr (x, []) :: ta ++ tb) with ([Wr (x, [])] ++ ta ++ tb).
        rewrite !vis_app, Va, Vb. reflexivity.
  Qed.
End Interleave.

(* ------------------------------------------------------------------------------------------ *)
(** * fuse_sound_partial *)

Definition disjointb (a b : list name) : bool := forallb (fun nm => negb (mem nm b)) a.

Lemma disjointb_ok a b : disjointb a b = true -> forall nm, In nm a -> ~ In nm b.
Proof.
  unfold disjointb. rewrite forallb_forall. intros H nm Ha Hb. specialize (H nm Ha).
  apply mem_In in Hb. rewrite Hb in H. discriminate.
Qed.

Definition fuse_safe_local (x : name) (seg : list stmt) : bool :=
  match seg with
  | [SDo x1 lo1 hi1 st1 b1; SDo x2 lo2 hi2 st2 b2] =>
      Nat.eqb x1 x && Nat.eqb x2 x && expr_eqb lo1 lo2 && expr_eqb hi1 hi2 && expr_eqb st1 st2 &&
      plain b1 && plain b2 &&
      negb (mem x (enames lo1 ++ enames hi1 ++ enames st1)) &&
      negb (mem x (wnames b1)) && negb (mem x (wnames b2)) &&
      disjointb (enames lo1 ++ enames hi1 ++ enames st1) (wnames b1) &&
      disjointb (wnames b1) (rnames b2) && disjointb (wnames b1) (wnames b2) &&
      disjointb (wnames b2) (rnames b1)
  | _ => false
  end.

Lemma expr_eqb_eq : forall a b, expr_eqb a b = true -> a = b.
Proof.
  induction a as [z|x|x ix IH|o e IH|o l r IHl IHr|f args IH] using expr_ind'; intros b H;
    destruct b as [z'|x'|x' ix'|o' e'|o' l' r'|f' args']; cbn [expr_eqb] in H; try discriminate.
  - apply Z.eqb_eq in H. congruence.
  - apply Nat.eqb_eq in H. congruence.
  - apply andb_true_iff in H as [H1 H2]. apply Nat.eqb_eq in H1. subst x'. f_equal.
    revert ix' H2. induction IH as [|e ix He _ IHix]; intros [|e' ix'] H2; try discriminate; [reflexivity|].
    apply andb_true_iff in H2 as [Ha Hb]. f_equal; [apply He, Ha|apply IHix, Hb].
  - apply andb_true_iff in H as [H1 H2]. destruct o, o'; try discriminate; f_equal; apply IH, H2.
  - apply andb_true_iff in H as [H H3]. apply andb_true_iff in H as [H1 H2].
    rewrite (IHl _ H2), (IHr _ H3). destruct o, o'; try discriminate; reflexivity.
  - apply andb_true_iff in H as [H1 H2].
    assert (args = args').
    { revert args' H2. induction IH as [|e ix He _ IHix]; intros [|e' ix'] H2; try discriminate; [reflexivity|].
      apply andb_true_iff in H2 as [Ha Hb]. f_equal; [apply He, Ha|apply IHix, Hb]. }
    subst. destruct f, f'; try discriminate; reflexivity.
Qed.

Lemma iters_unchanged_loc g body x : forall vs s s' tr c,
  iters (exec g body) x vs s = Ok s' tr c ->
  bnd s' = bnd s /\ forall l, l <> (x, []) -> ~ In (fst l) (wnames body) -> val s' l = val s l.
Proof.
  induction vs as [|v vs IH]; intros s s' tr c E.
  - rewrite iters_nil in E. inversion E; auto.
  - rewrite iters_cons in E.
    assert (One : forall sa tra ca, iter_run (exec g body) x v s = Ok sa tra ca ->
              bnd sa = bnd s /\ forall l, l <> (x, []) -> ~ In (fst l) (wnames body) -> val sa l = val s l).
    { intros sa tra ca E1. apply iter_run_ok_inv in E1 as [tr0 [c0 [E1 _]]]. split.
      - rewrite (exec_bnd _ _ _ _ _ _ E1). reflexivity.
      - intros l N1 N2. rewrite (exec_unchanged_names _ _ _ _ _ _ l E1 N2). apply val_upd_other, N1. }
    apply then_run_ok_inv in E as [[s1 [tr1 [tr2 [E1 [E2 _]]]]]|[Nc E1]].
    + destruct (One _ _ _ E1) as [B1 U1]. destruct (IH _ _ _ _ E2) as [B2 U2].
      split; [congruence|]. intros l N1 N2. rewrite U2, U1; auto.
    + eapply One; exact E1.
Qed.

Lemma fuse_local x lo hi st b1 b2 :
  plain b1 = true -> plain b2 = true ->
  ~ In x (enames lo ++ enames hi ++ enames st) -> ~ In x (wnames b1) -> ~ In x (wnames b2) ->
  (forall nm, In nm (enames lo ++ enames hi ++ enames st) -> ~ In nm (wnames b1)) ->
  (forall nm, In nm (wnames b1) -> ~ In nm (rnames b2)) ->
  (forall nm, In nm (wnames b1) -> ~ In nm (wnames b2)) ->
  (forall nm, In nm (wnames b2) -> ~ In nm (rnames b1)) ->
  sim [x] [SDo x lo hi st b1; SDo x lo hi st b2] [SDo x lo hi st (b1 ++ b2)].
Proof.
  intros Hp1 Hp2 Hxh Hx1 Hx2 Hh1 H12r H12w H21r f s1 s2 s1' tr c A E.
  assert (Nh : nomention [x] (enames lo ++ enames hi ++ enames st)).
  { intros y [<-|[]]. exact Hxh. }
  pose proof Nh as Nh'. apply nomention_app in Nh' as [Nlo Nh']. apply nomention_app in Nh' as [Nhi Nst].
  apply exec_cons_inv in E as [[sA [trA [trB [EL1 [EL2 ->]]]]]|[Nc EL1]].
  2:{ exfalso. apply exec_do_inv in EL1 as [f0 [l [h [t [tr0 [-> [_ [_ [_ [_ [EL1 _]]]]]]]]]]].
      destruct (plain_do_loop (exec (S f0) b1) x l t (fun a b tq cq => plain_exec (S f0) b1 a b tq cq Hp1) _ _ _ _ _ _ EL1) as [-> _].
      apply Nc; reflexivity. }
  (* the bounds have the same values when the second loop starts *)
  assert (Hun : forall l0, ~ In (fst l0) (x :: wnames b1) -> val sA l0 = val s1 l0).
  { intros l0 N. apply (exec_unchanged_names _ _ _ _ _ _ l0 EL1). cbn [wnames flat_map wnames_stmt].
    rewrite app_nil_r. exact N. }
  assert (BA : bnd sA = bnd s1) by (eapply exec_bnd; exact EL1).
  assert (Hev : forall e, (forall nm, In nm (enames e) -> In nm (enames lo ++ enames hi ++ enames st)) ->
                          eval sA e = eval s1 e).
  { intros e He. apply eval_frame; [exact BA|]. intros l0 Hl. apply ereads_names in Hl. apply Hun.
    intros [Q|Hw]; [apply Hxh, He; rewrite Q; exact Hl|exact (Hh1 _ (He _ Hl) Hw)]. }
  pose proof EL1 as EL1'.
  apply exec_do_inv in EL1 as [f1 [l [h [t [tr1 [-> [E1 [E2 [E3 [Nt [EL1 ->]]]]]]]]]]].
  apply exec_do_inv in EL2 as [f2 [l' [h' [t' [tr2 [Ef [E1' [E2' [E3' [_ [EL2 ->]]]]]]]]]]].
  rewrite Hev in E1' by (intros nm H; apply in_or_app; auto).
  rewrite Hev in E2' by (intros nm H; apply in_or_app; right; apply in_or_app; auto).
  rewrite Hev in E3' by (intros nm H; apply in_or_app; right; apply in_or_app; auto).
  assert (l' = l) by congruence. assert (h' = h) by congruence. assert (t' = t) by congruence. subst l' h' t'.
  rewrite do_loop_iters in EL1, EL2.
  set (V := ivals l t 0 (trip_count l h t)) in *.
  destruct (iters (exec (S f1) b1) x V s1) as [sA' tA' cA| |] eqn:EI1; [|cbn [bind_run] in EL1; discriminate..].
  destruct (plain_iters _ _ x Hp1 _ _ _ _ _ EI1) as [-> VA].
  cbn [bind_run set_run prepend] in EL1. inversion EL1; subst sA tr1. clear EL1.
  destruct (iters (exec (S f2) b2) x V _) as [sB' tB' cB| |] eqn:EI2; [|cbn [bind_run] in EL2; discriminate..].
  destruct (plain_iters _ _ x Hp2 _ _ _ _ _ EI2) as [-> VB].
  cbn [bind_run set_run prepend] in EL2. inversion EL2; subst s1' tr2 c. clear EL2.
  set (fin := l + (0 + Z.of_nat (trip_count l h t)) * t) in *.
  destruct (iters_unchanged_loc _ _ _ _ _ _ _ _ EI1) as [B1 U1].
  destruct (iters_unchanged_loc _ _ _ _ _ _ _ _ EI2) as [B2 U2].
  destruct A as [BS AS].
  assert (AW2i : agreeW (wnames b2) x s1 s2).
  { split; [exact BS|]. intros l0 _ Nx. apply AS. cbn [xlocs map In]. intros [Q|[]]. apply Nx. symmetry; exact Q. }
  assert (AW1i : agreeW (wnames b1) x (upd sA' (x, []) fin) s2).
  { split; [cbn [bnd upd]; congruence|]. intros l0 Nw Nx. rewrite val_upd_other by exact Nx.
    rewrite U1 by assumption. apply AS. cbn [xlocs map In]. intros [Q|[]]. apply Nx. symmetry; exact Q. }
  destruct (fuse_iters x b1 b2 (S f1) (S f2) H12r H21r Hp1 Hp2 V _ _ _ _ _ _ _ _ _ AW2i AW1i EI1 EI2)
    as [sg' [t'' [FI [VI [AW2 AW1]]]]].
  destruct (eval_agree [x] s1 s2 lo (conj BS AS) Nlo) as [V1 _].
  destruct (eval_agree [x] s1 s2 hi (conj BS AS) Nhi) as [V2 _].
  destruct (eval_agree [x] s1 s2 st (conj BS AS) Nst) as [V3 _].
  pose proof (exec_do (f1 + S f2) x lo hi st (b1 ++ b2) s2 l h t ltac:(congruence) ltac:(congruence) ltac:(congruence) Nt) as Ed.
  change (S (f1 + S f2)) with (S f1 + S f2)%nat in Ed. rewrite do_loop_iters in Ed. fold V in Ed. rewrite FI in Ed.
  cbn [bind_run set_run prepend] in Ed.
  eexists. eexists. eexists. split; [exact Ed|]. split.
  - destruct AW2 as [BW2 AW2], AW1 as [BW1 AW1]. split; [cbn [bnd upd]; congruence|].
    intros l0 Nx. cbn [xlocs map In] in Nx. assert (Nx' : l0 <> (x, [])) by (intro Q; apply Nx; left; symmetry; exact Q).
    rewrite !val_upd_other by exact Nx'.
    destruct (in_dec Nat.eq_dec (fst l0) (wnames b1)) as [I1|I1].
    + rewrite AW2 by (try exact Nx'; apply H12w, I1).
      rewrite U2 by (try exact Nx'; apply H12w, I1). rewrite val_upd_other by exact Nx'. reflexivity.
    + apply AW1; assumption.
  - rewrite !vis_app, !vis_rds, VI, VA, VB. reflexivity.
Qed.

Definition fuse_guard (x : name) (seg : list stmt) : option (list stmt) :=
  if fuse_safe_local x seg then Some [] else None.

(* whole-program condition: the two loops satisfy [fuse_safe_local] and nothing else in the program reads x *)
Definition fuse_safe (x : name) (path : list nat) (p : list stmt) : bool :=
  match rw 2 (fuse_guard x) path p with
  | Some p0 => nomentionb [x] (rnames p0)
  | None => false
  end.

Theorem fuse_sound_partial arrs x path p p' :
  fuse_safe x path p = true -> fuse_apply expr_eqb arrs false path p = Some p' -> sim [x] p p'.
Proof.
  unfold fuse_safe, fuse_apply. intros Hs Ha.
  destruct (rw 2 (fuse_guard x) path p) as [p0|] eqn:E0; [|discriminate].
  eapply rw_sim; [|exact Ha|exact E0|apply nomentionb_ok, Hs].
  intros seg seg' g0 HF HG. unfold fuse_guard in HG.
  destruct (fuse_safe_local x seg) eqn:Es; [|discriminate]. injection HG as <-. split; [reflexivity|].
  destruct seg as [|s1 [|s2 [|s3 seg]]]; try discriminate.
  destruct s1 as [ | |x1 lo1 hi1 st1 b1| | | | | | ]; try discriminate.
  destruct s2 as [ | |x2 lo2 hi2 st2 b2| | | | | | ]; try discriminate.
  unfold fuse_safe_local in Es. repeat (apply andb_true_iff in Es as [Es ?]).
  apply Nat.eqb_eq in Es. subst x1.
  repeat match goal with
         | H : Nat.eqb _ _ = true |- _ => apply Nat.eqb_eq in H; subst
         | H : expr_eqb _ _ = true |- _ => apply expr_eqb_eq in H; subst
         end.
  (* the model's output for this segment *)
  cbn [fuse_seg fuse_nodes] in HF.
  destruct (negb _) in HF; [discriminate|]. rewrite Nat.eqb_refl in HF. cbn [negb andb] in HF.
  destruct (forallb _ _) in HF; [|discriminate]. injection HF as <-.
  apply fuse_local; try assumption.
  - intro Hi. apply mem_In in Hi. match goal with H : negb (mem x (enames _ ++ _)) = true |- _ => rewrite Hi in H; discriminate end.
  - intro Hi. apply mem_In in Hi. match goal with H : negb (mem x (wnames b1)) = true |- _ => rewrite Hi in H; discriminate end.
  - intro Hi. apply mem_In in Hi. match goal with H : negb (mem x (wnames b2)) = true |- _ => rewrite Hi in H; discriminate end.
  - apply disjointb_ok; assumption.
  - apply disjointb_ok; assumption.
  - apply disjointb_ok; assumption.
  - apply disjointb_ok; assumption.
Qed.

(* non-vacuity: do i=1,n { a(i) = c(i) + 1 }; do i=1,n { b(i) = c(i) * 2 } *)
Definition fuse_example : list stmt :=
  [SDo 0%nat (ELit 1) (EVar 2%nat) (ELit 1) [SAssign 10%nat [EVar 0%nat] (EBin Add (EIdx 12%nat [EVar 0%nat]) (ELit 1))];
   SDo 0%nat (ELit 1) (EVar 2%nat) (ELit 1) [SAssign 11%nat [EVar 0%nat] (EBin Mul (EIdx 12%nat [EVar 0%nat]) (ELit 2))]].

Example fuse_nonvacuous :
  fuse_safe 0%nat [0%nat] fuse_example = true /\
  fuse_apply expr_eqb [10%nat; 11%nat; 12%nat] false [0%nat] fuse_example =
  Some [SDo 0%nat (ELit 1) (EVar 2%nat) (ELit 1)
          [SAssign 10%nat [EVar 0%nat] (EBin Add (EIdx 12%nat [EVar 0%nat]) (ELit 1));
           SAssign 11%nat [EVar 0%nat] (EBin Mul (EIdx 12%nat [EVar 0%nat]) (ELit 2))]].
Proof. split; reflexivity. Qed.
