(* C05 — non-vacuity of the producer/consumer fusion theorem (FusePC2.fuse_pc_local): the semantic premise
   pc_commute holds for  do i { a(i) = b(i) + 1 } ; do i { c(i) = a(i) * 2 }   (i = 0, a = 10, b = 11, c = 12):
   iteration v of the second loop and iteration v' <> v of the first touch distinct elements. *)
From Coq Require Import List ZArith Bool Lia.
Import ListNotations.
From PV Require Import Fort.Syntax Fort.Sem Fort.Facts Fort.Facts3 C05.Model C05.Equiv C05.Fuse C05.FusePCProofs C05.FusePC2.
Open Scope Z_scope.

Definition pc_b1 : list stmt := [SAssign 10%nat [EVar 0%nat] (EBin Add (EIdx 11%nat [EVar 0%nat]) (ELit 1))].
Definition pc_b2 : list stmt := [SAssign 12%nat [EVar 0%nat] (EBin Mul (EIdx 10%nat [EVar 0%nat]) (ELit 2))].

Notation X0 := (@pair name (list Z) 0%nat (@nil Z)).
Notation LA v := (@pair name (list Z) 10%nat (@cons Z v (@nil Z))).
Notation LB v := (@pair name (list Z) 11%nat (@cons Z v (@nil Z))).
Notation LC v := (@pair name (list Z) 12%nat (@cons Z v (@nil Z))).
Definition F1 (s : store) (v' : Z) : store := upd (upd s X0 v') (LA v') (val s (LB v') + 1).
Definition F2 (s : store) (v : Z) : store := upd (upd s X0 v) (LC v) (val s (LA v) * 2).

Ltac neq := let Q := fresh "Q" in intro Q; inversion Q; try congruence; try lia.

Lemma iter_assign g A e v s :
  exists tr, vis tr = [] /\
  iter_run (exec (S (S g)) [SAssign A [EVar 0%nat] e]) 0%nat v s =
  match eval (upd s X0 v) e with
  | Some w => Ok (upd (upd s X0 v) (A, [v]) w) tr CNormal
  | None => Fault
  end.
Proof.
  rewrite iter_run_eq, exec_cons. cbn [exec_stmt map eval opt_all]. rewrite val_upd_same. cbn [opt_all].
  destruct (eval _ e) as [w|].
  - eexists. split; [|unfold then_run; cbn [bind_run exec prepend map_ctl cyc2norm]; reflexivity].
    cbn [app]. rewrite app_nil_r. change (Wr X0 :: ?t) with ([Wr X0] ++ t). rewrite !vis_app, vis_rds. reflexivity.
  - exists []. split; reflexivity.
Qed.

Lemma run1 g s v' : exists tr, vis tr = [] /\ iter_run (exec (S (S g)) pc_b1) 0%nat v' s = Ok (F1 s v') tr CNormal.
Proof.
  destruct (iter_assign g 10%nat (EBin Add (EIdx 11%nat [EVar 0%nat]) (ELit 1)) v' s) as [tr [V E]].
  exists tr. split; [exact V|]. unfold pc_b1. rewrite E. cbn [eval map opt_all eval_bin]. rewrite val_upd_same.
  cbn [opt_all]. rewrite (val_upd_other s X0 v' (LB v')) by neq. reflexivity.
Qed.

Lemma run2 g s v : exists tr, vis tr = [] /\ iter_run (exec (S (S g)) pc_b2) 0%nat v s = Ok (F2 s v) tr CNormal.
Proof.
  destruct (iter_assign g 12%nat (EBin Mul (EIdx 10%nat [EVar 0%nat]) (ELit 2)) v s) as [tr [V E]].
  exists tr. split; [exact V|]. unfold pc_b2. rewrite E. cbn [eval map opt_all eval_bin]. rewrite val_upd_same.
  cbn [opt_all]. rewrite (val_upd_other s X0 v (LA v)) by neq. reflexivity.
Qed.

Lemma agree_F s s' v v' : v <> v' -> (forall l, l <> X0 -> val s' l = val s l) ->
  forall l, l <> X0 -> val (F1 (F2 s' v) v') l = val (F2 (F1 s v') v) l.
Proof.
  intros N As l Nl. unfold F1, F2.
  destruct (loc_eq_dec l (LC v)) as [->|N1].
  - rewrite (val_upd_other _ (LA v') _ (LC v)) by neq.
    rewrite (val_upd_other _ X0 v' (LC v)) by neq.
    rewrite !val_upd_same.
    rewrite (val_upd_other _ (LA v') _ (LA v)) by neq.
    rewrite (val_upd_other _ X0 v' (LA v)) by neq.
    rewrite As by neq. reflexivity.
  - destruct (loc_eq_dec l (LA v')) as [->|N2].
    + rewrite val_upd_same.
      rewrite (val_upd_other _ (LC v) _ (LB v')) by neq.
      rewrite (val_upd_other _ X0 v (LB v')) by neq.
      rewrite (val_upd_other _ (LC v) _ (LA v')) by neq.
      rewrite (val_upd_other _ X0 v (LA v')) by neq.
      rewrite val_upd_same. rewrite As by neq. reflexivity.
    + rewrite (val_upd_other _ (LA v') _ l) by exact N2. rewrite (val_upd_other _ X0 v' l) by exact Nl.
      rewrite (val_upd_other _ (LC v) _ l) by exact N1. rewrite (val_upd_other _ X0 v l) by exact Nl.
      rewrite (val_upd_other _ (LC v) _ l) by exact N1. rewrite (val_upd_other _ X0 v l) by exact Nl.
      rewrite (val_upd_other _ (LA v') _ l) by exact N2. rewrite (val_upd_other _ X0 v' l) by exact Nl.
      apply As, Nl.
Qed.

Lemma pc_example_commute : pc_commute 0%nat pc_b1 pc_b2.
Proof.
  intros g v v' N s s' s1 tr c [B A] E. unfold seqr in *.
  destruct g as [|[|g]].
  - rewrite iter_run_eq in E. cbn [exec map_ctl prepend then_run bind_run] in E. discriminate.
  - rewrite iter_run_eq in E. unfold pc_b1 in E. rewrite exec_cons in E. cbn [exec_stmt exec] in E.
    destruct (opt_all _); [|discriminate]. destruct (eval _ _); [|discriminate].
    cbn [then_run bind_run prepend map_ctl] in E. discriminate.
  - destruct (run1 g s v') as [t1 [V1 R1]]. destruct (run2 g (F1 s v') v) as [t2 [V2 R2]].
    rewrite R1 in E. unfold then_run in E. cbn [bind_run] in E. rewrite R2 in E. cbn [prepend] in E.
    inversion E; subst s1 tr c. clear E.
    destruct (run2 g s' v) as [t3 [V3 R3]]. destruct (run1 g (F2 s' v) v') as [t4 [V4 R4]].
    rewrite R3. unfold then_run. cbn [bind_run]. rewrite R4. cbn [prepend].
    eexists. eexists. split; [reflexivity|]. split.
    + split; [unfold F1, F2; cbn [bnd upd]; exact B|].
      assert (As : forall l, l <> X0 -> val s' l = val s l).
      { intros l Nl. apply A. cbn [xlocs map In]. intros [Q|[]]. apply Nl. symmetry; exact Q. }
      intros l Nl. apply agree_F; [exact N|exact As|].
      intro Q. apply Nl. cbn [xlocs map In]. left. symmetry; exact Q.
    + rewrite !vis_app, V1, V2, V3, V4. reflexivity.
Qed.

Example fuse_pc_nonvacuous :
  plain pc_b1 = true /\ plain pc_b2 = true /\ ~ In 0%nat (wnames pc_b1) /\ pc_commute 0%nat pc_b1 pc_b2.
Proof.
  split; [reflexivity|]. split; [reflexivity|]. split; [|exact pc_example_commute].
  cbn [pc_b1 wnames flat_map wnames_stmt app In]. intros [Q|[]]. discriminate.
Qed.
