(* C05 — executable glue for the correspondence run: one request = one transformation applied to one
   target with its options; [ccheck] compares the model's result with the expected one. *)
From Coq Require Import List ZArith Bool.
Import ListNotations.
From PV Require Import Fort.Syntax C05.Model.
Open Scope Z_scope.

Inductive req :=
| RFuse (tbl : list (expr * expr)) (arrs : list name) (reversed : bool) (path : list nat)
| RSwap (path : list nat)
| RChunk (c : Z) (out el : name) (path : list nat)
| RTile (c : Z) (oo oe io ie : name) (path : list nat)
| RHoist (path : list nat)
| RHoistBound (n1 n2 n3 : name) (path : list nat)
| RInduction (path : list nat)
| RFold.

Definition run_req (r : req) (p : list stmt) : option (list stmt) :=
  match r with
  | RFuse tbl arrs rev path => fuse_apply (table_eq tbl) arrs rev path p
  | RSwap path => swap_apply path p
  | RChunk c out el path => chunk_apply c out el path p
  | RTile c oo oe io ie path => tile_apply c oo oe io ie path p
  | RHoist path => hoist_apply path p
  | RHoistBound n1 n2 n3 path => hoistbound_apply n1 n2 n3 path p
  | RInduction path => induction_apply path p
  | RFold => Some (fold_apply p)
  end.

Definition ccase := (req * list stmt * option (list stmt))%type.

Definition ccheck (c : ccase) : bool :=
  match c with
  | (r, p, exp) =>
      match run_req r p, exp with
      | Some q, Some q' => stmts_eqb q q'
      | None, None => true
      | _, _ => false
      end
  end.

(* fully typed list constructors: the generated case files avoid list notations (slow to elaborate) *)
Definition En : list expr := nil.
Definition Ec : expr -> list expr -> list expr := cons.
Definition Sn : list stmt := nil.
Definition Sc : stmt -> list stmt -> list stmt := cons.
Definition Pn : list nat := nil.
Definition Pc : nat -> list nat -> list nat := cons.

(* one program with all the requests applied to it *)
Definition gcase := (list stmt * list (req * option (list stmt)))%type.
Definition gcheck (g : gcase) : bool :=
  forallb (fun re => ccheck (fst re, fst g, snd re)) (snd g).
