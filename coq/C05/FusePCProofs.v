(* C05 — LoopFuseTrans, producer/consumer pattern (a(i) = ..; .. = a(i)): fusion of two adjacent loops with
   identical literal bounds and plain bodies under a SEMANTIC premise: iteration v of the second loop commutes
   (up to the DO variable) with every iteration v' <> v of the first loop.  Proof: bubble the iterations of the
   second loop to the left, by induction on the list of iteration values. *)
From Coq Require Import List ZArith Bool Lia.
Import ListNotations.
From PV Require Import Fort.Syntax Fort.Sem Fort.Facts Fort.Facts3 C05.Model C05.Equiv C05.Fuse.
Open Scope Z_scope.

Section Runners.
  Variable x : name.
  Let X := [x].

  (* simulation between runners, up to the scalar x *)
  Definition rsim (R R' : runner) : Prop :=
    forall s s' s1 tr c, agree X s s' -> R s = Ok s1 tr c ->
      exists s1' tr', R' s' = Ok s1' tr' c /\ agree X s1 s1' /\ vis tr' = vis tr.

  Definition seqr (R1 R2 : runner) : runner := fun s => then_run (R1 s) R2.

  Lemma rsim_trans A B C : rsim A B -> rsim B C -> rsim A C.
  Proof.
    intros H1 H2 s s' s1 tr c Ag E.
    destruct (H1 _ _ _ _ _ (agree_refl X s) E) as [sa [ta [Ea [Aa Va]]]].
    destruct (H2 _ _ _ _ _ Ag Ea) as [sb [tb [Eb [Ab Vb]]]].
    exists sb, tb. split; [exact Eb|]. split; [eapply agree_trans; eassumption|congruence].
  Qed.

  Lemma rsim_ext A A' B B' : (forall s, A s = A' s) -> (forall s, B s = B' s) -> rsim A' B' -> rsim A B.
  Proof.
    intros EA EB H s s' s1 tr c Ag E. rewrite EA in E. destruct (H _ _ _ _ _ Ag E) as [sb [tb [Eb R]]].
    exists sb, tb. rewrite EB. auto.
  Qed.

  Lemma rsim_seq A A' B B' : rsim A A' -> rsim B B' -> rsim (seqr A B) (seqr A' B').
  Proof.
    intros HA HB s s' s1 tr c Ag E. unfold seqr in *.
    apply then_run_ok_inv in E as [[sa [ta [tb [Ea [Eb ->]]]]]|[Nc Ea]].
    - destruct (HA _ _ _ _ _ Ag Ea) as [sa' [ta' [Ea' [Aa Va]]]].
      destruct (HB _ _ _ _ _ Aa Eb) as [sb' [tb' [Eb' [Ab Vb]]]].
      rewrite Ea'. unfold then_run. cbn [bind_run]. rewrite Eb'. cbn [prepend].
      eexists. eexists. split; [reflexivity|]. split; [exact Ab|]. rewrite !vis_app. congruence.
    - destruct (HA _ _ _ _ _ Ag Ea) as [sa' [ta' [Ea' [Aa Va]]]]. rewrite Ea'.
      exists sa', ta'. split; [destruct c; try reflexivity; contradiction|]. auto.
  Qed.

  Lemma seqr_assoc A B C s : seqr (seqr A B) C s = seqr A (seqr B C) s.
  Proof. unfold seqr. apply then_run_assoc. Qed.

  Lemma seqr_cong_r R K K' s : (forall s0, K s0 = K' s0) -> seqr R K s = seqr R K' s.
  Proof.
    intro H. unfold seqr, then_run. destruct (R s) as [s0 t0 c0| |]; try reflexivity.
    destruct c0; try reflexivity. cbn [bind_run]. rewrite H. reflexivity.
  Qed.

  (* an iteration starts by setting x: it does not depend on the value of x before *)
  Lemma rsim_iter_refl (R : runner) v :
    (forall s s' s1 tr c, steq s s' -> R s = Ok s1 tr c -> exists s1', R s' = Ok s1' tr c /\ steq s1 s1') ->
    rsim (iter_run R x v) (iter_run R x v).
  Proof.
    intros HR s s' s1 tr c [B A] E. rewrite iter_run_eq in *.
    destruct (R (upd s (x, []) v)) as [sa ta ca| |] eqn:Er; try discriminate.
    assert (St : steq (upd s (x, []) v) (upd s' (x, []) v)).
    { split; [|cbn [bnd upd]; symmetry; exact B]. intro l. rewrite !val_upd.
      destruct (loc_eq_dec l (x, [])); [reflexivity|]. symmetry. apply A. cbn [xlocs map In]. intros [Q|[]]. congruence. }
    destruct (HR _ _ _ _ _ St Er) as [sb [Eb Sb]]. rewrite Eb. cbn [map_ctl prepend] in *. inversion E; subst.
    eexists. eexists. split; [reflexivity|]. split; [|reflexivity].
    destruct Sb as [S1 S2]. split; [symmetry; exact S2|]. intros l _. symmetry. apply S1.
  Qed.

  Lemma rsim_seq_runs_refl rs : Forall (fun r => rsim r r) rs -> rsim (seq_runs rs) (seq_runs rs).
  Proof.
    induction 1 as [|r rs Hr _ IH].
    - intros s s' s1 tr c Ag E. cbn [seq_runs] in *. inversion E; subst. exists s', []. auto.
    - apply (rsim_ext _ (seqr r (seq_runs rs)) _ (seqr r (seq_runs rs))); try reflexivity.
      apply rsim_seq; assumption.
  Qed.

  (* ---------------------------------------------------------------------------------------- *)
  Variables (r1 r2 : Z -> runner).
  Hypothesis Hr1 : forall v, rsim (r1 v) (r1 v).
  Hypothesis Hr2 : forall v, rsim (r2 v) (r2 v).

  Lemma seq1_refl vs : rsim (seq_runs (map r1 vs)) (seq_runs (map r1 vs)).
  Proof. apply rsim_seq_runs_refl. apply Forall_forall. intros r Hr. apply in_map_iff in Hr as [v [<- _]]. apply Hr1. Qed.
  Lemma seq2_refl vs : rsim (seq_runs (map r2 vs)) (seq_runs (map r2 vs)).
  Proof. apply rsim_seq_runs_refl. apply Forall_forall. intros r Hr. apply in_map_iff in Hr as [v [<- _]]. apply Hr2. Qed.

  (* iteration v of the second loop moves in front of a block of other iterations of the first loop *)
  Lemma move_left v : forall vs,
    (forall v', In v' vs -> rsim (seqr (r1 v') (r2 v)) (seqr (r2 v) (r1 v'))) ->
    rsim (seqr (seq_runs (map r1 vs)) (r2 v)) (seqr (r2 v) (seq_runs (map r1 vs))).
  Proof.
    induction vs as [|v' vs IH]; intro HC.
    - apply (rsim_ext _ (r2 v) _ (r2 v)); [| |apply Hr2].
      + intro s. unfold seqr. cbn [map seq_runs]. unfold then_run. cbn [bind_run]. apply prepend_nil.
      + intro s. unfold seqr. cbn [map]. change (seq_runs []) with (fun s0 : store => Ok s0 [] CNormal). apply then_run_ret.
    - cbn [map].
      eapply rsim_trans.
      { apply (rsim_ext _ (seqr (r1 v') (seqr (seq_runs (map r1 vs)) (r2 v))) _ (seqr (r1 v') (seqr (r2 v) (seq_runs (map r1 vs))))).
        - intro s. apply (seqr_assoc (r1 v') (seq_runs (map r1 vs)) (r2 v)).
        - reflexivity.
        - apply rsim_seq; [apply Hr1|]. apply IH. intros w Hw. apply HC. right; exact Hw. }
      eapply rsim_trans.
      { apply (rsim_ext _ (seqr (seqr (r1 v') (r2 v)) (seq_runs (map r1 vs))) _ (seqr (seqr (r2 v) (r1 v')) (seq_runs (map r1 vs)))).
        - intro s. symmetry. apply seqr_assoc.
        - reflexivity.
        - apply rsim_seq; [apply HC; left; reflexivity|apply seq1_refl]. }
      apply (rsim_ext _ (seqr (r2 v) (seqr (r1 v') (seq_runs (map r1 vs)))) _ (seqr (r2 v) (seqr (r1 v') (seq_runs (map r1 vs))))).
      + intro s. apply seqr_assoc.
      + reflexivity.
      + apply rsim_seq; [apply Hr2|]. apply rsim_seq; [apply Hr1|apply seq1_refl].
  Qed.

  Theorem interleave : forall vs, NoDup vs ->
    (forall v v', In v vs -> In v' vs -> v <> v' -> rsim (seqr (r1 v') (r2 v)) (seqr (r2 v) (r1 v'))) ->
    rsim (seqr (seq_runs (map r1 vs)) (seq_runs (map r2 vs)))
         (seq_runs (map (fun v => seqr (r1 v) (r2 v)) vs)).
  Proof.
    induction vs as [|v vs IH]; intros ND HC.
    - apply (rsim_ext _ (seq_runs []) _ (seq_runs [])); try reflexivity.
      apply rsim_seq_runs_refl. constructor.
    - inversion ND as [|? ? Nv ND']; subst. cbn [map].
      set (A := seq_runs (map r1 vs)) in *. set (B := seq_runs (map r2 vs)) in *.
      set (F := seq_runs (map (fun v0 => seqr (r1 v0) (r2 v0)) vs)) in *.
      (* (r1 v; A); (r2 v; B)  ~  r1 v; ((A; r2 v); B) *)
      eapply rsim_trans.
      { apply (rsim_ext _ (seqr (r1 v) (seqr (seqr A (r2 v)) B)) _ (seqr (r1 v) (seqr (seqr (r2 v) A) B))).
        - intro s. change (seq_runs (r1 v :: map r1 vs)) with (seqr (r1 v) A).
          change (seq_runs (r2 v :: map r2 vs)) with (seqr (r2 v) B).
          rewrite seqr_assoc. unfold seqr at 1 3. f_equal.
          unfold seqr. unfold then_run.
          destruct (r1 v s) as [s0 t0 c0| |]; try reflexivity. destruct c0; try reflexivity. cbn [bind_run]. f_equal.
          symmetry. apply (seqr_assoc A (r2 v) B).
        - reflexivity.
        - apply rsim_seq; [apply Hr1|]. apply rsim_seq; [|apply seq2_refl].
          apply move_left. intros v' Hv'. apply HC; [left; reflexivity|right; exact Hv'|]. intro Q. subst. contradiction. }
      eapply rsim_trans.
      { apply (rsim_ext _ (seqr (r1 v) (seqr (r2 v) (seqr A B))) _ (seqr (r1 v) (seqr (r2 v) F))).
        - intro s. apply seqr_cong_r. intro s0. apply (seqr_assoc (r2 v) A B).
        - reflexivity.
        - apply rsim_seq; [apply Hr1|]. apply rsim_seq; [apply Hr2|].
          apply IH; [exact ND'|]. intros a b Ha Hb. apply HC; right; assumption. }
      apply (rsim_ext _ (seqr (seqr (r1 v) (r2 v)) F) _ (seqr (seqr (r1 v) (r2 v)) F)).
      + intro s. symmetry. apply seqr_assoc.
      + reflexivity.
      + apply rsim_seq; [apply rsim_seq; [apply Hr1|apply Hr2]|].
        apply rsim_seq_runs_refl. apply Forall_forall. intros r Hr. apply in_map_iff in Hr as [w [<- _]].
        apply rsim_seq; [apply Hr1|apply Hr2].
  Qed.
End Runners.

Lemma rsim_seq_runs_map x (f f' : Z -> runner) vs :
  (forall v, rsim x (f v) (f' v)) -> rsim x (seq_runs (map f vs)) (seq_runs (map f' vs)).
Proof.
  intro H. induction vs as [|v vs IH].
  - intros s s' s1 tr c Ag E. cbn [map seq_runs] in *. inversion E; subst. exists s', []. auto.
  - cbn [map]. apply (rsim_ext x _ (seqr (f v) (seq_runs (map f vs))) _ (seqr (f' v) (seq_runs (map f' vs)))); try reflexivity.
    apply rsim_seq; [apply H|exact IH].
Qed.

Lemma exec_steq_runner g body s s' s1 tr c :
  steq s s' -> exec g body s = Ok s1 tr c -> exists s1', exec g body s' = Ok s1' tr c /\ steq s1 s1'.
Proof. intros St E. exact (exec_steq _ _ _ _ _ _ _ St E). Qed.

(* one fused iteration simulates the two separate iterations run one after the other *)
Lemma fused_iter x b1 b2 g v :
  plain b1 = true -> ~ In x (wnames b1) ->
  rsim x (seqr (iter_run (exec g b1) x v) (iter_run (exec g b2) x v)) (iter_run (exec (g + g) (b1 ++ b2)) x v).
Proof.
  intros Hp Hw s s' s1 tr c [B A] E. unfold seqr in E.
  apply then_run_ok_inv in E as [[sa [ta [tb [Ea [Eb ->]]]]]|[Nc Ea]].
  2:{ apply iter_run_ok_inv in Ea as [t0 [c0 [Ea [_ ->]]]]. destruct (plain_exec _ _ _ _ _ _ Hp Ea) as [-> _]. contradiction. }
  apply iter_run_ok_inv in Ea as [ta0 [ca [Ea [-> _]]]]. apply iter_run_ok_inv in Eb as [tb0 [cb [Eb [-> ->]]]].
  assert (St : steq (upd s (x, []) v) (upd s' (x, []) v)).
  { split; [|cbn [bnd upd]; symmetry; exact B]. intro l. rewrite !val_upd.
    destruct (loc_eq_dec l (x, [])); [reflexivity|]. symmetry. apply A. cbn [xlocs map In]. intros [Q|[]]. congruence. }
  destruct (exec_steq _ _ _ _ _ _ _ St Ea) as [sa' [Fa Sa]].
  destruct (plain_exec _ _ _ _ _ _ Hp Ea) as [-> _].
  assert (St2 : steq (upd sa (x, []) v) sa').
  { eapply steq_trans; [|exact Sa]. split; [|reflexivity]. intro l. rewrite val_upd.
    destruct (loc_eq_dec l (x, [])) as [->|]; [|reflexivity].
    rewrite (exec_unchanged_names _ _ _ _ _ _ (x, []) Ea Hw). rewrite val_upd_same. reflexivity. }
  destruct (exec_steq _ _ _ _ _ _ _ St2 Eb) as [sb' [Fb Sb]].
  rewrite (iter_run_ok _ _ _ _ _ _ _ (exec_app_ok g g b1 b2 _ _ _ _ _ _ Fa Fb)).
  eexists. eexists. split; [reflexivity|]. split.
  - destruct Sb as [S1 S2]. split; [symmetry; exact S2|]. intros l _. symmetry. apply S1.
  - cbn [vis filter visible app]. fold (vis (ta0 ++ tb0)). fold (vis ta0).
    rewrite !vis_app. cbn [vis filter visible]. reflexivity.
Qed.

(* Producer/consumer fusion at the level of the iteration sequences of the two loops (iters = the iterations of a
   DO loop, Fort/Facts.do_loop_iters): all iterations of loop 1 followed by all iterations of loop 2 are simulated,
   up to the DO variable, by the fused iterations — PROVIDED iteration v of loop 2 commutes with every iteration
   v' <> v of loop 1 (semantic premise; for a(i)/a(i) accesses they touch different elements). *)
Theorem fuse_pc_iters x b1 b2 g vs :
  plain b1 = true -> ~ In x (wnames b1) -> NoDup vs ->
  (forall v v', In v vs -> In v' vs -> v <> v' ->
     rsim x (seqr (iter_run (exec g b1) x v') (iter_run (exec g b2) x v))
            (seqr (iter_run (exec g b2) x v) (iter_run (exec g b1) x v'))) ->
  rsim x (seqr (iters (exec g b1) x vs) (iters (exec g b2) x vs)) (iters (exec (g + g) (b1 ++ b2)) x vs).
Proof.
  intros Hp Hw ND HC. unfold iters.
  eapply rsim_trans.
  - apply (interleave x (iter_run (exec g b1) x) (iter_run (exec g b2) x)); try assumption;
      intro v; apply rsim_iter_refl; intros; eapply exec_steq_runner; eassumption.
  - apply (rsim_seq_runs_map x (fun v => seqr (iter_run (exec g b1) x v) (iter_run (exec g b2) x v))
                               (iter_run (exec (g + g) (b1 ++ b2)) x)).
    intro v. apply fused_iter; assumption.
Qed.
