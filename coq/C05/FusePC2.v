(* C05 — producer/consumer fusion lifted from iteration sequences (FusePCProofs.fuse_pc_iters) to the execution of
   the two DO statements, with literal bounds; the commutation premise is SEMANTIC. *)
From Coq Require Import List ZArith Bool Lia.
Import ListNotations.
From PV Require Import Fort.Syntax Fort.Sem Fort.Facts Fort.Facts3 C05.Model C05.Equiv C05.Fuse C05.FusePCProofs.
Open Scope Z_scope.

(* iteration v of the second loop commutes, up to the DO variable, with every other iteration of the first loop *)
Definition pc_commute (x : name) (b1 b2 : list stmt) : Prop :=
  forall g v v', v <> v' ->
    rsim x (seqr (iter_run (exec g b1) x v') (iter_run (exec g b2) x v))
           (seqr (iter_run (exec g b2) x v) (iter_run (exec g b1) x v')).

Lemma iters_refl x g b vs : rsim x (iters (exec g b) x vs) (iters (exec g b) x vs).
Proof.
  unfold iters. apply rsim_seq_runs_refl. apply Forall_forall. intros r Hr. apply in_map_iff in Hr as [v [<- _]].
  apply rsim_iter_refl. intros; eapply exec_steq_runner; eassumption.
Qed.

Theorem fuse_pc_local x l h t b1 b2 :
  plain b1 = true -> plain b2 = true -> ~ In x (wnames b1) -> pc_commute x b1 b2 ->
  sim [x] [SDo x (ELit l) (ELit h) (ELit t) b1; SDo x (ELit l) (ELit h) (ELit t) b2]
          [SDo x (ELit l) (ELit h) (ELit t) (b1 ++ b2)].
Proof.
  intros Hp1 Hp2 Hw HC f s1 s2 s1' tr c A E.
  apply exec_cons_inv in E as [[sA [trA [trB [EL1 [EL2 ->]]]]]|[Nc EL1]].
  2:{ exfalso. apply exec_do_inv in EL1 as [f0 [l0 [h0 [t0 [tr0 [-> [_ [_ [_ [_ [EL1 _]]]]]]]]]]].
      destruct (plain_do_loop (exec (S f0) b1) x l0 t0 (fun a b tq cq => plain_exec (S f0) b1 a b tq cq Hp1) _ _ _ _ _ _ EL1) as [-> _].
      apply Nc; reflexivity. }
  apply exec_do_inv in EL1 as [f1 [l1 [h1 [t1 [tr1 [-> [E1 [E2 [E3 [Nt [EL1 ->]]]]]]]]]]].
  cbn [eval] in E1, E2, E3. injection E1 as <-. injection E2 as <-. injection E3 as <-.
  apply exec_do_inv in EL2 as [f2 [l2 [h2 [t2 [tr2 [Ef [E1 [E2 [E3 [_ [EL2 ->]]]]]]]]]]].
  cbn [eval] in E1, E2, E3. injection E1 as <-. injection E2 as <-. injection E3 as <-.
  injection Ef as <-.
  rewrite do_loop_iters in EL1, EL2.
  set (V := ivals l t 0 (trip_count l h t)) in *.
  set (fin := l + (0 + Z.of_nat (trip_count l h t)) * t) in *.
  destruct (iters (exec (S f1) b1) x V s1) as [sA' tA cA| |] eqn:EI1; [|cbn [bind_run] in EL1; discriminate..].
  destruct (plain_iters _ _ x Hp1 _ _ _ _ _ EI1) as [-> VA].
  cbn [bind_run set_run prepend] in EL1. inversion EL1; subst sA tr1. clear EL1.
  destruct (iters (exec (S f1) b2) x V (upd sA' (x, []) fin)) as [sB' tB cB| |] eqn:EI2; [|cbn [bind_run] in EL2; discriminate..].
  destruct (plain_iters _ _ x Hp2 _ _ _ _ _ EI2) as [-> VB].
  cbn [bind_run set_run prepend] in EL2. inversion EL2; subst s1' tr2 c. clear EL2.
  (* loop 2 does not depend on the value loop 1 leaves in x *)
  destruct (iters_refl x (S f1) b2 V _ sA' _ _ _ (agree_upd_l [x] sA' sA' x fin (agree_refl _ _) (or_introl eq_refl)) EI2)
    as [sB'' [tB'' [EI2' [AB VB']]]].
  assert (Eseq : seqr (iters (exec (S f1) b1) x V) (iters (exec (S f1) b2) x V) s1 = Ok sB'' (tA ++ tB'') CNormal).
  { unfold seqr. rewrite EI1. unfold then_run. cbn [bind_run]. rewrite EI2'. reflexivity. }
  destruct (fuse_pc_iters x b1 b2 (S f1) V Hp1 Hw (ivals_NoDup _ _ _ _ Nt)
              (fun v v' _ _ N => HC (S f1) v v' N) _ _ _ _ _ A Eseq) as [sC [tC [FI [AC VC]]]].
  pose proof (exec_do (f1 + S f1) x (ELit l) (ELit h) (ELit t) (b1 ++ b2) s2 l h t eq_refl eq_refl eq_refl Nt) as Ed.
  change (S (f1 + S f1)) with (S f1 + S f1)%nat in Ed. rewrite do_loop_iters in Ed. fold V in Ed. rewrite FI in Ed.
  cbn [bind_run set_run prepend] in Ed.
  eexists. eexists. eexists. split; [exact Ed|]. split.
  - apply agree_upd. eapply agree_trans; eassumption.
  - rewrite !vis_app, !vis_rds, VC, vis_app, VA, VB', VB. reflexivity.
Qed.
