(* C22 — placement correspondence: Place.place on the loops of an untransformed invoke (one field) must be
   exactly what the implementation generated for that field (exchange positions, depth lists, check_dirty,
   loops, marks).  Evaluated by props/C22/check.py. *)
From Coq Require Import List NArith Bool.
Import ListNotations.
From PV Require Import C22.Model C22.Access C22.Harness C22.Place.
Open Scope N_scope.

Definition need_eqb (x y : sdepth * bool) : bool := sdepth_eqb (fst x) (fst y) && Bool.eqb (snd x) (snd y).

Definition stmt_eqb (x y : stmt) : bool :=
  match x, y with
  | SHx d1 c1, SHx d2 c2 => list_eqb sdepth_eqb d1 d2 && Bool.eqb c1 c2
  | SLoop r1 w1, SLoop r2 w2 => list_eqb need_eqb r1 r2 && opt_eqb need_eqb w1 w2
  | SDirty, SDirty => true
  | SClean a, SClean b => sdepth_eqb a b
  | _, _ => false
  end.

Inductive pcase := CPL (cfg cont : bool) (ls : list ploop) (p : list fstmt).

Definition pcheck (c : pcase) : bool :=
  match c with
  | CPL cfg cont ls p =>
      forallb (base_ok cfg) ls && forallb (fun l => Bool.eqb (pl_cont l) cont) ls
      && match build p with Some q => list_eqb stmt_eqb (place cfg ls) q | None => false end
  end.
