(* C22 — the decision tree of LFRicHaloExchange.required.
   [rc_need]: what the aggregated read information (a list of HaloDepth) demands at run time;
   [after_write]: what PSyclone believes the previous writer left clean (HaloWriteAccess).
   required_sound_partial: when [required] answers "not required" the belief covers the demand, for
   all M and extents -- provided the list is not the single "max_depth-1" entry (req_safe).
   required_refuted: without that condition the statement is FALSE of the code as it is today. *)
From Coq Require Import List NArith Bool Lia.
Import ListNotations.
From PV Require Import C22.Model.
Open Scope N_scope.

(* a demand / a state: (halo depth, annexed dofs) *)
Definition sat (st need : N * bool) : Prop :=
  fst need <= fst st /\ (snd need = true -> snd st = true).

Definition rc_depth (M : N) (e : env) (rc : list hdepth) : N :=
  eval_max M e (map sd_of_hd rc).

(* the single annexed entry only demands clean annexed dofs (its literal 1 is the depth of the
   exchange that is the only way to clean them) *)
Definition rc_need (M : N) (e : env) (rc : list hdepth) : N * bool :=
  if single_annexed rc then (0, true) else (rc_depth M e rc, false).

Definition after_write (cfg : bool) (M : N) (c : hwrite) : N * bool :=
  let full := if hw_max c then M else hw_lit c in
  ((if hw_dirty_outer c then full - 1 else full),
   cfg || hw_max c || (1 <=? hw_lit c)).

Definition req_safe (rc : list hdepth) : bool :=
  match rc with [d] => negb (hd_maxm1 d) | _ => true end.

Lemma single_cases : forall rc, single_annexed rc = true -> exists d, rc = [d] /\ hd_ann d = true.
Proof.
  intros rc H. destruct rc as [|d [|d' r]]; cbn in H; try discriminate. exists d. auto.
Qed.

Lemma required_gen_sound : forall fixed cfg rc w k,
  (fixed = true \/ req_safe rc = true) -> required_gen fixed cfg rc w = (false, k) ->
  forall M e s0, valid_cfg M e -> (cfg = true -> snd s0 = true) ->
  rc_depth M e rc <= M ->
  sat (match w with Some c => after_write cfg M c | None => s0 end) (rc_need M e rc).
Proof.
  intros fixed cfg rc w k Hsafe Hreq M e s0 [HM He] Hs0 Hval.
  unfold required_gen in Hreq.
  destruct (cfg && single_annexed rc) eqn:E1.
  - apply andb_prop in E1. destruct E1 as [-> Hsa]. unfold rc_need. rewrite Hsa.
    destruct w as [c|]; unfold sat; cbn [fst snd after_write]; split; auto; try lia.
  - destruct w as [c|]; [|discriminate].
    destruct (hw_max c) eqn:Emax.
    + destruct (hw_dirty_outer c) eqn:Edo; cbn [negb] in Hreq.
      * destruct rc as [|d r]; [discriminate|]. destruct (hd_max d); discriminate.
      * unfold rc_need. destruct (single_annexed rc) eqn:Esa;
          unfold sat, after_write; rewrite Emax, Edo; cbn [fst snd]; split; auto; try lia.
    + destruct (hw_lit c =? 0) eqn:El0; [discriminate|]. apply N.eqb_neq in El0.
      destruct ((hw_lit c =? 1) && hw_dirty_outer c) eqn:E3.
      * destruct (single_annexed rc) eqn:Esa; [|discriminate].
        apply andb_prop in E3. destruct E3 as [E3a E3b]. apply N.eqb_eq in E3a.
        unfold rc_need. rewrite Esa. unfold sat, after_write. rewrite Emax, E3b. cbn [fst snd].
        split; [lia|]. intros _. apply orb_true_iff. right. apply N.leb_le. lia.
      * set (clean := if hw_dirty_outer c then hw_lit c - 1 else hw_lit c) in *.
        destruct ((1 <? N.of_nat (length rc)) && existsb (fun d => clean <? hd_lit d) rc); [discriminate|].
        destruct rc as [|d [|d' r]]; try discriminate.
        destruct ((match hd_var d with Some _ => true | None => false end) || hd_max d || (fixed && hd_maxm1 d)) eqn:E4;
          [discriminate|].
        destruct (clean <? hd_lit d) eqn:E5; [discriminate|]. apply N.ltb_ge in E5.
        apply orb_false_iff in E4. destruct E4 as [E4 E4f].
        apply orb_false_iff in E4. destruct E4 as [E4v E4m].
        assert (Hm1 : hd_maxm1 d = false).
        { destruct Hsafe as [-> | Hsafe]; [exact E4f|].
          cbn [req_safe] in Hsafe. apply negb_true_iff in Hsafe. exact Hsafe. }
        unfold rc_need, sat, after_write. rewrite Emax. cbn [single_annexed].
        destruct (hd_ann d) eqn:Eann; cbn [fst snd].
        -- split; [lia|]. intros _. apply orb_true_iff. right. apply N.leb_le. lia.
        -- split; [|discriminate].
           unfold rc_depth. cbn [map eval_max fold_right]. unfold sd_of_hd. rewrite E4m, Hm1.
           destruct (hd_var d); [discriminate|]. cbn [eval_sd]. fold clean. lia.
Qed.

Theorem required_sound_partial_ : forall cfg rc w k,
  req_safe rc = true -> required cfg rc w = (false, k) ->
  forall M e s0, valid_cfg M e -> (cfg = true -> snd s0 = true) ->
  rc_depth M e rc <= M ->
  sat (match w with Some c => after_write cfg M c | None => s0 end) (rc_need M e rc).
Proof. intros cfg rc w k Hs. apply required_gen_sound. right. exact Hs. Qed.

(* with the repair of props/C22/fix.patch the statement holds at full strength *)
Theorem required_sound_fixed_ : forall cfg rc w k,
  required_gen true cfg rc w = (false, k) ->
  forall M e s0, valid_cfg M e -> (cfg = true -> snd s0 = true) ->
  rc_depth M e rc <= M ->
  sat (match w with Some c => after_write cfg M c | None => s0 end) (rc_need M e rc).
Proof. intros cfg rc w k. apply required_gen_sound. left. reflexivity. Qed.

(* non-vacuity: a redundantly computing discontinuous writer (depth 2) and a reader of depth 2 *)
Example required_sound_nonvacuous :
  let rc := [plain_depth None 2] in
  let w := Some {| hw_max := false; hw_lit := 2; hw_dirty_outer := false |} in
  req_safe rc = true /\ required false rc w = (false, true).
Proof. vm_compute. auto. Qed.

(* The unchanged code: a lone "max_depth-1" requirement (a GH_INC reader computed redundantly to the
   maximum depth) is compared through its literal_depth 0: after a writer that cleans to literal depth 1
   the exchange is "not required", but with halo depth 3 the reader needs depth 2. *)
Theorem required_refuted_ : exists cfg rc w k M e,
  required cfg rc (Some w) = (false, k) /\ valid_cfg M e /\ rc_depth M e rc <= M /\
  ~ sat (after_write cfg M w) (rc_need M e rc).
Proof.
  exists false,
    [ {| hd_max := false; hd_maxm1 := true; hd_var := None; hd_lit := 0; hd_ann := false |} ],
    {| hw_max := false; hw_lit := 1; hw_dirty_outer := false |}, true, 3, (fun _ => 1).
  split; [vm_compute; reflexivity|]. split; [split; [lia| intros; lia]|]. split; [vm_compute; discriminate|].
  unfold sat. vm_compute. intros [H _]. apply H. reflexivity.
Qed.

(* the witness comes from real readers: _create_depth_list of one GH_INC reader whose loop goes to the
   maximum halo depth is the single max_depth-1 entry *)
Example refuted_witness_is_reachable :
  let reader := {| r_acc := AInc; r_ub := BCellHalo; r_ubd := None; r_disc := false; r_dofkern := false;
                   r_auw := false; r_stencil := None; r_fine := false |} in
  match read_access reader with
  | Some h => create_depth_list [h] =
              [ {| hd_max := false; hd_maxm1 := true; hd_var := None; hd_lit := 0; hd_ann := false |} ]
  | None => False
  end.
Proof. vm_compute. reflexivity. Qed.

(* Second defect of the unchanged code (annexed dofs off, halo depth 1): the same reader gets an exchange
   of depth max_halo_depth_mesh-1 = 0, i.e. none, although it reads annexed dofs (for literal depth 1 the
   code does exchange to depth 1 for exactly that reason). *)
Theorem maxm1_exchange_depth_zero_ :
  let reader := {| r_acc := AInc; r_ub := BCellHalo; r_ubd := None; r_disc := false; r_dofkern := false;
                   r_auw := false; r_stencil := None; r_fine := false |} in
  exists h, read_access reader = Some h /\
    eval_max 1 (fun _ => 1) (map sd_of_hd (create_depth_list [h])) = 0 /\
    true_need (KCells LDMax) {| t_acc := AInc; t_cont := true; t_stencil := None; t_ghwc := false |}
      = Some (SMaxM1, true).
Proof. cbn zeta. eexists. split; [vm_compute; reflexivity|]. split; vm_compute; reflexivity. Qed.
