(* C22 — the placement step for UNTRANSFORMED invokes, as seen by one field:
   LFRicLoop.create_halo_exchanges (lfric_loop.py l. 704-763) + _add_field_component_halo_exchange
   (l. 590-655), run for every loop in schedule order by LFRicInvoke.__init__:
     for every loop, for a field it reads in the halo (_halo_read_access): if the previous writer-or-exchange
     of the field is not already an exchange, add an exchange before the loop, ask it [required] (depth list
     from ALL following readers up to and including the next writer, Argument._find_read_arguments) and
     remove it again if not required; check_dirty = not known.
   Loop bounds are those of LFRicLoop.load (ncells / cell_halo(1) / ndofs / nannexed); the marks are those of
   gen_mark_halos_clean_dirty.  [place] produces the statement list on which [well_placed] is defined. *)
From Coq Require Import List NArith Bool Lia.
Import ListNotations.
From PV Require Import C22.Model C22.Placement C22.Required C22.Access.
Open Scope N_scope.

(* one loop of the invoke that has the field as argument: PSyclone's view and the ground truth's view *)
Record ploop := { pl_ub : bound; pl_acc : access; pl_disc : bool; pl_cont : bool;
                  pl_st : option extent; pl_auw : bool; pl_ghwc : bool }.

Definition pl_dof (l : ploop) : bool := match pl_ub l with BNdofs | BNannexed => true | _ => false end.
Definition pl_ubd (l : ploop) : option N := match pl_ub l with BCellHalo => Some 1 | _ => None end.
Definition pl_rarg (l : ploop) : rarg :=
  {| r_acc := pl_acc l; r_ub := pl_ub l; r_ubd := pl_ubd l; r_disc := pl_disc l; r_dofkern := pl_dof l;
     r_auw := pl_auw l; r_stencil := pl_st l; r_fine := false |}.
Definition pl_warg (l : ploop) : warg :=
  {| w_disc := pl_disc l; w_cellcol := negb (pl_dof l); w_ub := pl_ub l; w_ubd := pl_ubd l; w_fine := false |}.
Definition pl_targ (l : ploop) : targ :=
  {| t_acc := pl_acc l; t_cont := pl_cont l; t_stencil := pl_st l; t_ghwc := pl_ghwc l |}.
Definition pl_kind (l : ploop) : lkind :=
  match lkind_of (pl_ub l) (pl_ubd l) with Some k => k | None => KDomain end.
Definition pl_reads (l : ploop) : bool := negb (access_eqb (pl_acc l) AWrite).
Definition pl_writes (l : ploop) : bool := negb (access_eqb (pl_acc l) ARead).

(* Argument.forward_read_dependencies of an exchange placed before the first loop of [ls] *)
Fixpoint readers_from (ls : list ploop) : list hread :=
  match ls with
  | [] => []
  | l :: r =>
      let me := if pl_reads l then match read_access (pl_rarg l) with Some h => [h] | None => [] end else [] in
      if pl_writes l then me else me ++ readers_from r
  end.

(* the previous write dependence of the field: none, a loop, or an exchange *)
Inductive prev := PNone | PLoop (w : hwrite) | PHx.

Definition loop_stmt (l : ploop) : stmt :=
  SLoop (match true_need (pl_kind l) (pl_targ l) with Some n => [n] | None => [] end)
        (if pl_writes l then Some (true_after (pl_kind l) (pl_targ l)) else None).

Definition mark_stmts (l : ploop) : list stmt :=
  if pl_writes l then
    let m := marks (write_access (pl_warg l)) in
    (if fst m then [SDirty] else []) ++ (match snd m with Some d => [SClean d] | None => [] end)
  else [].

Fixpoint place_from (cfg : bool) (ls : list ploop) (p : prev) : list stmt :=
  match ls with
  | [] => []
  | l :: r =>
      let wants := match halo_read_access cfg (larg_of (pl_rarg l)) with Some true => true | _ => false end in
      let hx : list stmt :=
        match p with
        | PHx => []
        | _ =>
            if wants then
              let dl := create_depth_list (readers_from ls) in
              let rq := required cfg dl (match p with PLoop w => Some w | _ => None end) in
              if fst rq then [SHx (map sd_of_hd dl) (negb (snd rq))] else []
            else []
        end in
      let p1 := match hx with [] => p | _ => PHx end in
      let p2 := if pl_writes l then PLoop (write_access (pl_warg l)) else p1 in
      hx ++ loop_stmt l :: mark_stmts l ++ place_from cfg r p2
  end.

Definition place (cfg : bool) (ls : list ploop) : list stmt := place_from cfg ls PNone.

(* ---- the base-case universe: loops as LFRicLoop.load creates them *)
Definition ub_eqb (x y : bound) : bool :=
  match x, y with
  | BNcells, BNcells | BCellHalo, BCellHalo | BNdofs, BNdofs | BNannexed, BNannexed => true
  | _, _ => false
  end.

Definition base_ok (cfg : bool) (l : ploop) : bool :=
  (ub_eqb (pl_ub l) BNcells || ub_eqb (pl_ub l) BCellHalo || ub_eqb (pl_ub l) BNdofs || ub_eqb (pl_ub l) BNannexed)
  && (negb (pl_reads l) || compat_r cfg (pl_rarg l) (pl_kind l) (pl_targ l))
  && (negb (pl_writes l) || compat_w cfg (pl_warg l) (pl_kind l) (pl_targ l))
  && (negb (pl_disc l) || negb (pl_cont l))
  (* built-ins: nannexed with COMPUTE_ANNEXED_DOFS (ndofs for the read-only arguments of reductions), no stencil *)
  && (negb (pl_dof l) ||
      ((ub_eqb (pl_ub l) (if cfg then BNannexed else BNdofs) || (access_eqb (pl_acc l) ARead && ub_eqb (pl_ub l) BNdofs))
       && negb (pl_auw l) && negb (pl_ghwc l)
       && match pl_st l with None => true | _ => false end
       && match pl_acc l with AInc | AReadInc => false | _ => true end))
  (* an increment of a continuous field: loop to cell_halo(1); never on discontinuous metadata *)
  && (match pl_acc l with AInc | AReadInc => ub_eqb (pl_ub l) BCellHalo && negb (pl_disc l) | _ => true end)
  (* the "GH_WRITE to a continuous field" kernel: all updates are writes, loop over owned cells *)
  && (negb (pl_ghwc l) || (pl_auw l && ub_eqb (pl_ub l) BNcells)).

Definition outside_gap (l : ploop) : bool := negb (pl_reads l && read_gap (pl_rarg l) (pl_targ l)).

Definition bools := [true; false].
Definition stencils : list (option extent) := [None; Some (ELit 1); Some (ELit 2); Some (EVar 0); Some (EVar 1)].

Definition all_ploops : list ploop :=
  flat_map (fun ub => flat_map (fun acc => flat_map (fun disc => flat_map (fun cont => flat_map (fun st =>
  flat_map (fun auw => map (fun gh =>
    {| pl_ub := ub; pl_acc := acc; pl_disc := disc; pl_cont := cont; pl_st := st; pl_auw := auw; pl_ghwc := gh |})
  bools) bools) stencils) bools) bools) [ARead; AWrite; AReadWrite; AInc; AReadInc]) [BNcells; BCellHalo; BNdofs; BNannexed].

(* loops a field of continuity [cont] can appear in *)
Definition universe (cfg cont : bool) : list ploop :=
  filter (fun l => base_ok cfg l && Bool.eqb (pl_cont l) cont) all_ploops.

Definition lists_upto3 {A} (u : list A) : list (list A) :=
  [[]] ++ map (fun a => [a]) u
  ++ flat_map (fun a => map (fun b => [a; b]) u) u
  ++ flat_map (fun a => flat_map (fun b => map (fun c => [a; b; c]) u) u) u.

Definition place_ok (cfg cont : bool) (ls : list ploop) : bool :=
  negb (forallb outside_gap ls) || well_placed 1 cfg cont (place cfg ls).
