(* C22 — _create_depth_list: the aggregated depth list demands at least what every individual reader
   (HaloReadAccess) demands.  depth_list_covers_partial: for all reader lists, M, extents -- provided the
   list is not empty (an empty list makes PSyclone fail at code generation, "max()") and not (halo depth 1
   and a GH_INC reader at maximum depth): that case is refuted in Required.v
   (maxm1_exchange_depth_zero_). *)
From Coq Require Import List NArith Bool Lia.
Import ListNotations.
From PV Require Import C22.Model C22.Required C22.Access.
Open Scope N_scope.

Definition ev (M : N) (e : env) (d : hdepth) : N := eval_sd M e (sd_of_hd d).
Definition emax (M : N) (e : env) (l : list hdepth) : N := eval_max M e (map sd_of_hd l).

(* a demand is met: deeper, and annexed dofs are covered explicitly or by an exchange of depth >= 1 *)
Definition meets0 (have need : N * bool) : Prop :=
  fst need <= fst have /\ (snd need = true -> snd have = true \/ 1 <= fst have).

(* readers as HaloReadAccess builds them: only a GH_INC access has needs_clean_outer = False, and it has
   no stencil (hence no variable depth); a maximum-depth reader has no literal/variable part (a stencil
   with a maximum-depth loop is refused); the annexed-only reader has literal depth 1 *)
Definition novar (h : hread) : bool := match hd_var (hr_d h) with None => true | Some _ => false end.
Definition wf (h : hread) : bool :=
  (hr_nco h || novar h)
  && (negb (hd_max (hr_d h)) || ((hd_lit (hr_d h) =? 0) && novar h && negb (hd_ann (hr_d h))))
  && (negb (hd_ann (hr_d h)) || ((hd_lit (hr_d h) =? 1) && novar h)).

Definition maxinc (h : hread) : bool := hd_max (hr_d h) && negb (hr_nco h).

Definition value (M : N) (e : env) (var : option (bool * N)) (lit : N) : N :=
  match var with Some (b, v) => eval_sd M e (SVar b v lit) | None => lit end.

Definition nomax (d : hdepth) : Prop := hd_max d = false /\ hd_ann d = false.

Lemma emax_app : forall M e l x, emax M e (l ++ [x]) = N.max (emax M e l) (ev M e x).
Proof.
  intros M e l x. unfold emax, ev. induction l as [|a r IH]; cbn [map app eval_max fold_right].
  - lia.
  - unfold eval_max in IH. rewrite IH. lia.
Qed.

Lemma emax_cons : forall M e a l, emax M e (a :: l) = N.max (ev M e a) (emax M e l).
Proof. reflexivity. Qed.

Lemma var_eqb_eq : forall x y, var_eqb x y = true -> x = y.
Proof.
  intros [[b1 v1]|] [[b2 v2]|] H; cbn in H; try discriminate; auto.
  apply andb_prop in H. destruct H as [H1 H2]. apply Bool.eqb_prop in H1. apply N.eqb_eq in H2. subst. reflexivity.
Qed.

Lemma ev_plain : forall M e d, hd_max d = false -> hd_maxm1 d = false ->
  ev M e d = value M e (hd_var d) (hd_lit d).
Proof.
  intros M e d H1 H2. unfold ev, sd_of_hd, value. rewrite H1, H2. destruct (hd_var d) as [[b v]|]; reflexivity.
Qed.

Lemma value_mono : forall M e var a b, a <= b -> value M e var a <= value M e var b.
Proof. intros M e [[bb v]|] a b H; cbn; lia. Qed.

Lemma update_first_sound : forall M e acc var lit acc',
  Forall nomax acc -> update_first acc var lit = Some acc' ->
  Forall nomax acc' /\ emax M e acc <= emax M e acc' /\ value M e var lit <= emax M e acc'.
Proof.
  intros M e acc. induction acc as [|d r IH]; intros var lit acc' Hno Hu; cbn [update_first] in Hu.
  - discriminate.
  - inversion Hno as [|? ? Hd Hr]; subst.
    destruct (var_matches d var) eqn:Em.
    + inversion Hu; subst acc'; clear Hu.
      unfold var_matches in Em. apply andb_prop in Em. destruct Em as [Em Ev].
      apply andb_prop in Em. destruct Em as [Em1 Ea]. apply negb_true_iff in Em1.
      apply var_eqb_eq in Ev.
      set (d' := {| hd_max := hd_max d; hd_maxm1 := hd_maxm1 d; hd_var := hd_var d;
                    hd_lit := N.max (hd_lit d) lit; hd_ann := hd_ann d |}).
      assert (Hd' : nomax d') by exact Hd.
      split; [constructor; assumption|].
      rewrite !emax_cons. destruct Hd as [Hdm Hda].
      rewrite (ev_plain M e d Hdm Em1). rewrite (ev_plain M e d' Hdm Em1). cbn [hd_var hd_lit d'].
      pose proof (value_mono M e (hd_var d) (hd_lit d) (N.max (hd_lit d) lit) ltac:(lia)).
      pose proof (value_mono M e (hd_var d) lit (N.max (hd_lit d) lit) ltac:(lia)).
      rewrite Ev in *. split; lia.
    + destruct (update_first r var lit) as [r'|] eqn:Er; [|discriminate].
      inversion Hu; subst acc'; clear Hu.
      destruct (IH var lit r' Hr Er) as [H1 [H2 H3]].
      split; [constructor; assumption|]. rewrite !emax_cons. split; lia.
Qed.

(* the literal used by the loop for a reader *)
Definition loop_lit (h : hread) : N :=
  if negb (hd_lit (hr_d h) =? 0) && negb (hr_nco h) then hd_lit (hr_d h) - 1 else hd_lit (hr_d h).

Lemma depth_loop_step : forall M e h acc,
  Forall nomax acc -> maxinc h = false ->
  exists acc1, depth_loop (h :: nil) acc = acc1 /\ Forall nomax acc1 /\ emax M e acc <= emax M e acc1 /\
               value M e (hd_var (hr_d h)) (loop_lit h) <= emax M e acc1.
Proof.
  intros M e h acc Hno Hmi. unfold maxinc in Hmi. cbn [depth_loop]. rewrite Hmi. fold (loop_lit h).
  destruct (update_first acc (hd_var (hr_d h)) (loop_lit h)) as [acc'|] eqn:Eu.
  - destruct (update_first_sound M e acc _ _ acc' Hno Eu) as [H1 [H2 H3]]. exists acc'. auto.
  - destruct ((match hd_var (hr_d h) with Some _ => true | None => false end) || (0 <? loop_lit h)) eqn:Ec.
    + eexists. split; [reflexivity|]. split.
      * apply Forall_app. split; [assumption|]. constructor; [split; reflexivity | constructor].
      * rewrite emax_app. rewrite (ev_plain M e (plain_depth _ _) eq_refl eq_refl).
        cbn [plain_depth hd_var hd_lit]. split; lia.
    + exists acc. split; [reflexivity|]. split; [assumption|]. split; [lia|].
      apply orb_false_iff in Ec. destruct Ec as [Ev El]. apply N.ltb_ge in El.
      destruct (hd_var (hr_d h)); [discriminate|]. cbn [value]. lia.
Qed.

Lemma depth_loop_cons : forall h r acc, depth_loop (h :: r) acc = depth_loop r (depth_loop [h] acc).
Proof.
  intros h r acc. cbn [depth_loop].
  destruct (hd_max (hr_d h) && negb (hr_nco h)); [reflexivity|].
  destruct (update_first acc _ _); [reflexivity|].
  destruct (_ || _); reflexivity.
Qed.

Lemma depth_loop_mono : forall M e hs acc, Forall nomax acc ->
  Forall nomax (depth_loop hs acc) /\ emax M e acc <= emax M e (depth_loop hs acc).
Proof.
  intros M e hs. induction hs as [|h r IH]; intros acc Hno.
  - cbn [depth_loop]. split; [assumption | lia].
  - rewrite depth_loop_cons. destruct (maxinc h) eqn:Emi.
    + assert (Hs : depth_loop [h] acc = acc).
      { cbn [depth_loop]. unfold maxinc in Emi. rewrite Emi. reflexivity. }
      rewrite Hs. apply IH. assumption.
    + destruct (depth_loop_step M e h acc Hno Emi) as [acc1 [E1 [H1 [H2 H3]]]]. rewrite E1.
      destruct (IH acc1 H1) as [H4 H5]. split; [assumption | lia].
Qed.

Lemma depth_loop_covers : forall M e hs acc h, Forall nomax acc -> In h hs -> maxinc h = false ->
  value M e (hd_var (hr_d h)) (loop_lit h) <= emax M e (depth_loop hs acc).
Proof.
  intros M e hs. induction hs as [|x r IH]; intros acc h Hno Hin Hmi; [destruct Hin|].
  rewrite depth_loop_cons. destruct Hin as [-> | Hin].
  - destruct (depth_loop_step M e h acc Hno Hmi) as [acc1 [E1 [H1 [H2 H3]]]]. rewrite E1.
    destruct (depth_loop_mono M e r acc1 H1) as [_ H5]. lia.
  - destruct (maxinc x) eqn:Emx.
    + assert (Hs : depth_loop [x] acc = acc).
      { cbn [depth_loop]. unfold maxinc in Emx. rewrite Emx. reflexivity. }
      rewrite Hs. apply IH; assumption.
    + destruct (depth_loop_step M e x acc Hno Emx) as [acc1 [E1 [H1 _]]]. rewrite E1. apply IH; assumption.
Qed.

(* depth part of a reader's demand is bounded by the value the loop records for it *)
Lemma wf_elim : forall h, wf h = true ->
  (hr_nco h = true \/ novar h = true) /\
  (hd_max (hr_d h) = true -> hd_lit (hr_d h) = 0 /\ novar h = true /\ hd_ann (hr_d h) = false) /\
  (hd_ann (hr_d h) = true -> hd_lit (hr_d h) = 1 /\ novar h = true).
Proof.
  intros h H. unfold wf in H. apply andb_prop in H. destruct H as [H H3]. apply andb_prop in H. destruct H as [H1 H2].
  split; [apply orb_prop; exact H1|]. split.
  - intros Hm. rewrite Hm in H2. cbn [negb orb] in H2. apply andb_prop in H2. destruct H2 as [H2 Ha].
    apply andb_prop in H2. destruct H2 as [Hl Hv]. apply N.eqb_eq in Hl. apply negb_true_iff in Ha. auto.
  - intros Ha. rewrite Ha in H3. cbn [negb orb] in H3. apply andb_prop in H3. destruct H3 as [Hl Hv].
    apply N.eqb_eq in Hl. auto.
Qed.

Lemma adj_le_value : forall M e h, wf h = true -> hd_max (hr_d h) = false -> hd_maxm1 (hr_d h) = false ->
  fst (hr_need M e h) <= value M e (hd_var (hr_d h)) (loop_lit h).
Proof.
  intros M e h Hwf Hm Hm1. destruct (wf_elim h Hwf) as [Hnv _].
  unfold hr_need. destruct (hd_ann (hr_d h)); [cbn [fst]; lia|].
  fold (ev M e (hr_d h)). rewrite (ev_plain M e _ Hm Hm1). unfold loop_lit, novar in *.
  destruct (hr_nco h); cbn [negb andb orb fst] in *.
  - rewrite andb_false_r. lia.
  - destruct Hnv as [Hx | Hx]; [discriminate|].
    destruct (hd_var (hr_d h)); [discriminate|]. cbn [value].
    destruct (hd_lit (hr_d h) =? 0) eqn:E0; cbn [negb andb]; lia.
Qed.

Definition start_of (hs : list hread) : list hdepth :=
  if existsb (fun h => hd_max (hr_d h)) hs
  then [ {| hd_max := false; hd_maxm1 := true; hd_var := None; hd_lit := 0; hd_ann := false |} ] else [].

Lemma start_nomax : forall hs, Forall nomax (start_of hs).
Proof. intros hs. unfold start_of. destruct (existsb _ hs); repeat constructor. Qed.

(* every entry of the result is worth at least 1 (the max_depth-1 entry only when M >= 2) *)
Definition entry_pos (M : N) (e : env) (d : hdepth) : Prop := 1 <= ev M e d.

Lemma update_first_pos : forall M e acc var lit acc', update_first acc var lit = Some acc' ->
  Forall (entry_pos M e) acc -> Forall (entry_pos M e) acc'.
Proof.
  intros M e acc. induction acc as [|d r IH]; intros var lit acc' Hu Hp; cbn [update_first] in Hu; [discriminate|].
  inversion Hp as [|? ? Hd Hr]; subst.
  destruct (var_matches d var) eqn:Em.
  - inversion Hu; subst acc'. constructor; [|assumption].
    unfold entry_pos, ev, sd_of_hd in *. cbn [hd_max hd_maxm1 hd_var hd_lit].
    destruct (hd_max d); [assumption|]. destruct (hd_maxm1 d); [assumption|].
    destruct (hd_var d) as [[b v]|]; cbn [eval_sd] in *; lia.
  - destruct (update_first r var lit) as [r'|] eqn:Er; [|discriminate]. inversion Hu; subst acc'.
    constructor; [assumption|]. apply (IH var lit r' Er Hr).
Qed.

Lemma depth_loop_pos : forall M e hs acc, valid_cfg M e ->
  Forall (entry_pos M e) acc -> Forall (entry_pos M e) (depth_loop hs acc).
Proof.
  intros M e hs. induction hs as [|h r IH]; intros acc Hv Hp; [exact Hp|].
  cbn [depth_loop]. destruct (hd_max (hr_d h) && negb (hr_nco h)); [apply IH; assumption|].
  fold (loop_lit h).
  destruct (update_first acc (hd_var (hr_d h)) (loop_lit h)) as [acc'|] eqn:Eu.
  - apply IH; [assumption|]. apply (update_first_pos M e acc _ _ acc' Eu Hp).
  - destruct ((match hd_var (hr_d h) with Some _ => true | None => false end) || (0 <? loop_lit h)) eqn:Ec.
    + apply IH; [assumption|]. apply Forall_app. split; [assumption|]. constructor; [|constructor].
      unfold entry_pos. rewrite (ev_plain M e (plain_depth _ _) eq_refl eq_refl). cbn [plain_depth hd_var hd_lit].
      destruct Hv as [HM He].
      apply orb_prop in Ec. destruct Ec as [Ec | Ec].
      * destruct (hd_var (hr_d h)) as [[b v]|]; [|discriminate]. cbn [value eval_sd]. specialize (He v). destruct b; lia.
      * apply N.ltb_lt in Ec. destruct (hd_var (hr_d h)) as [[b v]|]; cbn [value eval_sd]; lia.
    + apply IH; assumption.
Qed.

Lemma emax_pos : forall M e l, l <> [] -> Forall (entry_pos M e) l -> 1 <= emax M e l.
Proof.
  intros M e [|a r] Hne Hp; [congruence|]. inversion Hp as [|? ? Ha Hr]; subst.
  rewrite emax_cons. unfold entry_pos in Ha. lia.
Qed.

Lemma single_annexed_false : forall l, Forall nomax l -> single_annexed l = false.
Proof.
  intros [|d [|d' r]] H; cbn [single_annexed]; auto. inversion H as [|? ? [_ Ha] _]; subst. exact Ha.
Qed.

Lemma need_le_ev : forall M e h, hd_ann (hr_d h) = false -> fst (hr_need M e h) <= ev M e (hr_d h).
Proof.
  intros M e h Ha. unfold hr_need. rewrite Ha. fold (ev M e (hr_d h)). destruct (hr_nco h); cbn [fst]; lia.
Qed.

Theorem depth_list_covers_partial_ : forall hs h M e,
  In h hs -> valid_cfg M e ->
  forallb wf hs = true ->
  (forall x, In x hs -> hd_maxm1 (hr_d x) = false /\ ev M e (hr_d x) <= M) ->
  create_depth_list hs <> [] ->
  (2 <= M \/ existsb maxinc hs = false) ->
  meets0 (rc_need M e (create_depth_list hs)) (hr_need M e h).
Proof.
  intros hs h M e Hin Hv Hwf Hvalid Hne Hsafe.
  pose proof Hv as [HM He].
  rewrite forallb_forall in Hwf. pose proof (Hwf h Hin) as Hwfh.
  destruct (wf_elim h Hwfh) as [Hnv [Hwmax Hwann]].
  destruct (Hvalid h Hin) as [Hm1 HleM].
  unfold create_depth_list in *.
  destruct (forallb annexed_like hs) eqn:Eall.
  - (* single annexed entry *)
    unfold rc_need. cbn [single_annexed hd_ann].
    rewrite forallb_forall in Eall. specialize (Eall h Hin). unfold annexed_like in Eall.
    unfold meets0, hr_need. destruct (hd_ann (hr_d h)) eqn:Ea; cbn [fst snd].
    + split; [lia | auto].
    + cbn [orb] in Eall. apply andb_prop in Eall. destruct Eall as [El Enco]. apply N.eqb_eq in El.
      apply negb_true_iff in Enco. rewrite Enco in *. cbn [fst snd].
      destruct Hnv as [Hx | Hnv]; [discriminate|].
      assert (Hmx : hd_max (hr_d h) = false).
      { destruct (hd_max (hr_d h)) eqn:Emx; auto. destruct (Hwmax eq_refl) as [Hl0 _]. lia. }
      fold (ev M e (hr_d h)). rewrite (ev_plain M e _ Hmx Hm1). unfold novar in Hnv.
      destruct (hd_var (hr_d h)); [discriminate|]. cbn [value]. rewrite El. split; [cbn; lia | auto].
  - destruct (existsb (fun h0 => hd_max (hr_d h0) && hr_nco h0) hs) eqn:Emn.
    + (* whole halo *)
      unfold rc_need. cbn [single_annexed hd_ann rc_depth map eval_max fold_right sd_of_hd hd_max eval_sd fst snd].
      unfold meets0. cbn [fst snd]. unfold hr_need.
      destruct (hd_ann (hr_d h)) eqn:Ea; cbn [fst snd].
      * split; [lia|]. intros _. right. lia.
      * fold (ev M e (hr_d h)). destruct (hr_nco h); cbn [fst snd]; (split; [lia|]); intros; right; lia.
    + (* the loop *)
      fold (start_of hs) in *.
      pose proof (start_nomax hs) as Hsn.
      destruct (depth_loop_mono M e hs (start_of hs) Hsn) as [Hno Hmono].
      unfold rc_need. rewrite (single_annexed_false _ Hno). unfold rc_depth. fold (emax M e (depth_loop hs (start_of hs))).
      (* all entries are >= 1 *)
      assert (Hpos : 1 <= emax M e (depth_loop hs (start_of hs))).
      { apply emax_pos; [assumption|]. apply depth_loop_pos; [assumption|].
        unfold start_of. destruct (existsb (fun h0 => hd_max (hr_d h0)) hs) eqn:Emx; [|constructor].
        constructor; [|constructor]. unfold entry_pos, ev, sd_of_hd. cbn [hd_max hd_maxm1 eval_sd].
        destruct Hsafe as [H2 | Hnone]; [lia|].
        (* a maximum-depth reader that is neither (max, nco) nor (max, not nco): impossible *)
        exfalso. apply existsb_exists in Emx. destruct Emx as [x [Hx Hxm]].
        assert (Hc1 : (hd_max (hr_d x) && hr_nco x) = false).
        { destruct (hd_max (hr_d x) && hr_nco x) eqn:E; auto.
          assert (existsb (fun h0 => hd_max (hr_d h0) && hr_nco h0) hs = true)
            by (apply existsb_exists; exists x; auto). congruence. }
        assert (Hc2 : maxinc x = false).
        { destruct (maxinc x) eqn:E; auto.
          assert (existsb maxinc hs = true) by (apply existsb_exists; exists x; auto). congruence. }
        unfold maxinc in Hc2. rewrite Hxm in *. destruct (hr_nco x); cbn in *; discriminate. }
      unfold meets0. cbn [fst snd]. split; [|intros _; right; exact Hpos].
      destruct (hd_max (hr_d h)) eqn:Emx.
      * (* maximum-depth reader: not (max, nco) here, so GH_INC: demand M - 1, covered by the max_depth-1 entry *)
        assert (Hnco : hr_nco h = false).
        { destruct (hr_nco h) eqn:E; auto.
          assert (existsb (fun h0 => hd_max (hr_d h0) && hr_nco h0) hs = true)
            by (apply existsb_exists; exists h; rewrite Emx, E; auto). congruence. }
        destruct (Hwmax eq_refl) as [_ [_ Ha]].
        unfold hr_need. rewrite Ha, Hnco. cbn [fst]. unfold sd_of_hd. rewrite Emx. cbn [eval_sd].
        assert (Hst : start_of hs = [ {| hd_max := false; hd_maxm1 := true; hd_var := None; hd_lit := 0; hd_ann := false |} ]).
        { unfold start_of. assert (existsb (fun h0 => hd_max (hr_d h0)) hs = true)
            by (apply existsb_exists; exists h; auto). rewrite H. reflexivity. }
        rewrite Hst in Hmono |- *. unfold emax at 1 in Hmono. cbn [map eval_max fold_right sd_of_hd hd_max hd_maxm1 eval_sd] in Hmono.
        lia.
      * assert (Hmi : maxinc h = false) by (unfold maxinc; rewrite Emx; reflexivity).
        pose proof (depth_loop_covers M e hs (start_of hs) h Hsn Hin Hmi) as Hc.
        pose proof (adj_le_value M e h Hwfh Emx Hm1). lia.
Qed.

(* non-vacuity: a stencil reader (extent variable 0, cell_halo(1) loop) and a GH_INC reader in cell_halo(2) *)
Example depth_list_nonvacuous :
  let h1 := {| hr_d := {| hd_max := false; hd_maxm1 := false; hd_var := Some (false, 0); hd_lit := 1; hd_ann := false |};
               hr_nco := true |} in
  let h2 := {| hr_d := {| hd_max := false; hd_maxm1 := false; hd_var := None; hd_lit := 2; hd_ann := false |};
               hr_nco := false |} in
  forallb wf [h1; h2] = true /\ create_depth_list [h1; h2] <> [] /\ existsb maxinc [h1; h2] = false /\
  map sd_of_hd (create_depth_list [h1; h2]) = [SVar false 0 1; SLit 1].
Proof. vm_compute. repeat split; auto. discriminate. Qed.
