(* C22 — the untransformed placement is well placed: for every field whose loops are drawn from the base-case
   universe (Place.universe: loops as LFRicLoop.load creates them, all access modes / continuities / stencil
   kinds), AT MOST THREE loops touching the field, outside the gap [read_gap].  Proved by an exhaustive sweep
   (vm_compute over 2 x (55^3 + 110^3)-odd loop lists) lifted with forallb_forall: the bound is part of the
   statement.  With Placement.placement_safe_ this gives never-reads-dirty for all M, extents, initial states. *)
From Coq Require Import List NArith Bool Lia.
Import ListNotations.
From PV Require Import C22.Model C22.Placement C22.Required C22.Access C22.Place.
Open Scope N_scope.

Lemma lists_upto3_complete : forall {A} (u : list A) (ls : list A),
  (length ls <= 3)%nat -> Forall (fun x => In x u) ls -> In ls (lists_upto3 u).
Proof.
  intros A u ls Hlen Hall. unfold lists_upto3.
  destruct ls as [|a [|b [|c [|d r]]]]; cbn [length] in Hlen; try lia.
  - apply in_or_app. left. left. reflexivity.
  - apply in_or_app. right. apply in_or_app. left. inversion Hall; subst. apply in_map_iff. exists a. auto.
  - apply in_or_app. right. apply in_or_app. right. apply in_or_app. left.
    inversion Hall as [|? ? Ha Hr]; subst. inversion Hr as [|? ? Hb _]; subst.
    apply in_flat_map. exists a. split; [assumption|]. apply in_map_iff. exists b. auto.
  - apply in_or_app. right. apply in_or_app. right. apply in_or_app. right.
    inversion Hall as [|? ? Ha Hr]; subst. inversion Hr as [|? ? Hb Hr2]; subst. inversion Hr2 as [|? ? Hc _]; subst.
    apply in_flat_map. exists a. split; [assumption|]. apply in_flat_map. exists b. split; [assumption|].
    apply in_map_iff. exists c. auto.
Qed.

Definition sweep_stmt (cfg cont : bool) : Prop :=
  forallb (place_ok cfg cont) (lists_upto3 (universe cfg cont)) = true.
Lemma sweep_tt : sweep_stmt true true.   Proof. vm_cast_no_check (eq_refl true). Qed.
Lemma sweep_tf : sweep_stmt true false.  Proof. vm_cast_no_check (eq_refl true). Qed.
Lemma sweep_ft : sweep_stmt false true.  Proof. vm_cast_no_check (eq_refl true). Qed.
Lemma sweep_ff : sweep_stmt false false. Proof. vm_cast_no_check (eq_refl true). Qed.

Lemma sweep_all : forall cfg cont, sweep_stmt cfg cont.
Proof. intros [|] [|]; [exact sweep_tt | exact sweep_tf | exact sweep_ft | exact sweep_ff]. Qed.

Theorem place_well_placed_bounded_ : forall cfg cont ls,
  (length ls <= 3)%nat -> Forall (fun l => In l (universe cfg cont)) ls ->
  forallb outside_gap ls = true ->
  well_placed 1 cfg cont (place cfg ls) = true.
Proof.
  intros cfg cont ls Hlen Hall Hgap.
  pose proof (lists_upto3_complete (universe cfg cont) ls Hlen Hall) as Hin.
  generalize (sweep_all cfg cont). unfold sweep_stmt.
  generalize dependent (lists_upto3 (universe cfg cont)). intros L Hin HS.
  pose proof (proj1 (forallb_forall (place_ok cfg cont) L) HS ls Hin) as S.
  unfold place_ok in S. rewrite Hgap in S. exact S.
Qed.

Lemma in_bools : forall b : bool, In b bools.
Proof. intros [|]; cbn; auto. Qed.

(* membership in the universe is exactly: a base-case loop, of that continuity, with one of the stencil kinds *)
Lemma universe_spec : forall cfg l, base_ok cfg l = true -> In (pl_st l) stencils ->
  In l (universe cfg (pl_cont l)).
Proof.
  intros cfg l Hok Hst. unfold universe. apply filter_In. split.
  - destruct l as [ub acc disc cont st auw gh]. cbn [pl_st] in Hst.
    assert (Hub : In ub [BNcells; BCellHalo; BNdofs; BNannexed]).
    { unfold base_ok in Hok. cbn [pl_ub] in Hok.
      destruct ub; cbn [ub_eqb orb andb] in Hok; try discriminate; cbn; auto. }
    unfold all_ploops.
    apply in_flat_map. exists ub. split; [exact Hub|].
    apply in_flat_map. exists acc. split; [destruct acc; cbn; auto 6|].
    apply in_flat_map. exists disc. split; [apply in_bools|].
    apply in_flat_map. exists cont. split; [apply in_bools|].
    apply in_flat_map. exists st. split; [exact Hst|].
    apply in_flat_map. exists auw. split; [apply in_bools|].
    apply in_map_iff. exists gh. split; [reflexivity | apply in_bools].
  - rewrite Hok. cbn [andb]. apply Bool.eqb_reflx.
Qed.

(* hence: the generated untransformed code never reads dirty data, for all M, extents and initial states *)
Theorem generated_never_reads_dirty_bounded_ : forall cfg cont ls,
  (length ls <= 3)%nat -> Forall (fun l => In l (universe cfg cont)) ls ->
  forallb outside_gap ls = true ->
  forall M e s0, valid_cfg M e -> init_ok cfg M s0 ->
  match run M e (place cfg ls) s0 false with
  | Ok s _ => fr s <= fa s /\ (cfg && cont = true -> fann s = true)
  | Invalid => True
  | DirtyRead | RecordedCleaner => False
  end.
Proof.
  intros cfg cont ls Hlen Hall Hgap M e s0 Hv Hi.
  apply (placement_safe_ 1 cfg cont (place cfg ls) (place_well_placed_bounded_ cfg cont ls Hlen Hall Hgap)
                         M e s0 Hv); [destruct Hv; assumption | exact Hi].
Qed.

(* non-vacuity: setval_c(f) ; kernel reading f with a stencil of extent ext (loop over owned cells) ; kernel
   incrementing f (loop to cell_halo(1)); f continuous, annexed dofs off: two exchanges are placed *)
Definition ex_invoke : list ploop :=
  [ {| pl_ub := BNdofs; pl_acc := AWrite; pl_disc := false; pl_cont := true; pl_st := None; pl_auw := false; pl_ghwc := false |};
    {| pl_ub := BNcells; pl_acc := ARead; pl_disc := false; pl_cont := true; pl_st := Some (EVar 0); pl_auw := true; pl_ghwc := false |};
    {| pl_ub := BCellHalo; pl_acc := AInc; pl_disc := false; pl_cont := true; pl_st := None; pl_auw := false; pl_ghwc := false |} ].

Example place_nonvacuous :
  forallb (base_ok false) ex_invoke = true /\ forallb (fun l => pl_cont l) ex_invoke = true /\
  forallb outside_gap ex_invoke = true /\
  place false ex_invoke =
    [ SLoop [(SLit 0, false)] (Some (SLit 0, false)); SDirty;
      SHx [SVar false 0 0] false;
      SLoop [(SVar false 0 0, true)] None;
      SLoop [(SLit 0, true)] (Some (SLit 0, true)); SDirty ] /\
  well_placed 1 false true (place false ex_invoke) = true.
Proof. vm_compute. repeat split; reflexivity. Qed.
