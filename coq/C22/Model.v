(* C22 — Distributed-memory LFRic code never reads a dirty halo.   Definitions only (no proofs).

   Part A: faithful model of the decision logic of src/psyclone/dynamo0p3.py
           (HaloReadAccess._compute_from_field, HaloWriteAccess._compute_from_field,
            _create_depth_list, LFRicHaloExchange.required, HaloDepth.__str__) and of
           src/psyclone/domain/lfric/lfric_loop.py (_halo_read_access, gen_mark_halos_clean_dirty)
           AS THE CODE IS TODAY (including its defects).
   Part B: ground truth (modelled from doc/developer_guide/APIs.rst, see props/C22/NOTES.md): what a
           kernel argument really reads of a field's halo and what a loop really leaves clean.
   Part C: the abstract halo machine for one field (fields evolve independently) and the checkable
           placement predicate [well_placed]. *)
From Coq Require Import List NArith Bool Lia.
Import ListNotations.
Open Scope N_scope.

(* ------------------------------------------------------------------------------------------ A *)
Inductive access := ARead | AWrite | AReadWrite | AInc | AReadInc.
Inductive bound := BNcells | BNcolour | BNcolours | BNdofs | BNannexed
                 | BCellHalo | BColourHalo | BDofHalo | BInner | BStart.

Definition access_eqb (x y : access) : bool :=
  match x, y with
  | ARead, ARead | AWrite, AWrite | AReadWrite, AReadWrite | AInc, AInc | AReadInc, AReadInc => true
  | _, _ => false
  end.

(* LFRicConstants.HALO_ACCESS_LOOP_BOUNDS *)
Definition halo_bound (b : bound) : bool :=
  match b with BCellHalo | BColourHalo | BDofHalo => true | _ => false end.

(* Python truthiness of loop.upper_bound_halo_depth: None and 0 are false *)
Definition truthy (d : option N) : option N := match d with Some 0 => None | x => x end.

(* stencil extent: literal (metadata or algorithm layer) or the id of an algorithm-layer variable *)
Inductive extent := ELit (n : N) | EVar (v : N).

(* HaloDepth.  hd_var = Some (doubled, id): doubled is the "2*" prefix of inter-grid fine-mesh accesses *)
Record hdepth := { hd_max : bool; hd_maxm1 : bool; hd_var : option (bool * N); hd_lit : N; hd_ann : bool }.
Record hread := { hr_d : hdepth; hr_nco : bool }.          (* + needs_clean_outer *)
Record hwrite := { hw_max : bool; hw_lit : N; hw_dirty_outer : bool }.

(* what HaloReadAccess looks at: the argument, its kernel and the enclosing loop *)
Record rarg := { r_acc : access; r_ub : bound; r_ubd : option N; r_disc : bool; r_dofkern : bool;
                 r_auw : bool; r_stencil : option extent; r_fine : bool }.

(* HaloReadAccess._compute_from_field; None = GenerationError *)
Definition read_access (a : rarg) : option hread :=
  let nco := negb (access_eqb (r_acc a) AInc &&
                   match r_ub a with BCellHalo | BColourHalo => true | _ => false end) in
  let ph1 : option (N * bool * bool) :=              (* literal, max_depth, annexed_only *)
    if halo_bound (r_ub a) then
      match truthy (r_ubd a) with Some d => Some (d, false, false) | None => Some (0, true, false) end
    else match r_ub a with
         | BNcolour => Some (0, false, false)
         | BNcells | BNannexed =>
             match r_stencil a with
             | Some _ => Some (0, false, false)
             | None => if r_disc a || r_dofkern a || r_auw a then Some (0, false, false)
                       else Some (1, false, true)
             end
         | BNdofs => Some (0, false, false)
         | _ => None
         end in
  match ph1 with
  | None => None
  | Some (lit, mx, ann) =>
      let ph2 : option (N * option N) :=
        match r_stencil a with
        | None => Some (lit, None)
        | Some e => if mx then None
                    else match e with ELit n => Some (lit + n, None) | EVar v => Some (lit, Some v) end
        end in
      match ph2 with
      | None => None
      | Some (lit2, var) =>
          let lit3 := if r_fine a then lit2 * 2 else lit2 in
          let var3 := match var with Some v => Some (r_fine a, v) | None => None end in
          Some {| hr_d := {| hd_max := mx; hd_maxm1 := false; hd_var := var3; hd_lit := lit3; hd_ann := ann |};
                  hr_nco := nco |}
      end
  end.

(* what HaloWriteAccess looks at *)
Record warg := { w_disc : bool; w_cellcol : bool; w_ub : bound; w_ubd : option N; w_fine : bool }.

Definition write_access (w : warg) : hwrite :=
  let dirty := negb (w_disc w) && w_cellcol w && halo_bound (w_ub w) in
  let dm : N * bool :=
    if halo_bound (w_ub w) then
      match truthy (w_ubd w) with Some d => (d, false) | None => (0, true) end
    else (0, false) in
  {| hw_max := snd dm; hw_lit := (if w_fine w then fst dm * 2 else fst dm); hw_dirty_outer := dirty |}.

(* _create_depth_list.  The max_depth-1 entry and the annexed entry carry var_depth "" which never
   equals the var_depth (None or a name) of a reader: modelled by the flag hd_maxm1 / hd_ann of the
   entry, which [var_matches] refuses. *)
Definition var_eqb (x y : option (bool * N)) : bool :=
  match x, y with
  | None, None => true
  | Some (b1, v1), Some (b2, v2) => Bool.eqb b1 b2 && (v1 =? v2)
  | _, _ => false
  end.

Definition var_matches (entry : hdepth) (var : option (bool * N)) : bool :=
  negb (hd_maxm1 entry) && negb (hd_ann entry) && var_eqb (hd_var entry) var.

Fixpoint update_first (l : list hdepth) (var : option (bool * N)) (lit : N) : option (list hdepth) :=
  match l with
  | [] => None
  | d :: r =>
      if var_matches d var then
        Some ({| hd_max := hd_max d; hd_maxm1 := hd_maxm1 d; hd_var := hd_var d;
                 hd_lit := N.max (hd_lit d) lit; hd_ann := hd_ann d |} :: r)
      else match update_first r var lit with Some r' => Some (d :: r') | None => None end
  end.

Definition plain_depth (var : option (bool * N)) (lit : N) : hdepth :=
  {| hd_max := false; hd_maxm1 := false; hd_var := var; hd_lit := lit; hd_ann := false |}.

Definition annexed_like (h : hread) : bool :=
  hd_ann (hr_d h) || ((hd_lit (hr_d h) =? 1) && negb (hr_nco h)).

Fixpoint depth_loop (hs : list hread) (acc : list hdepth) : list hdepth :=
  match hs with
  | [] => acc
  | h :: r =>
      if hd_max (hr_d h) && negb (hr_nco h) then depth_loop r acc
      else
        let lit := if negb (hd_lit (hr_d h) =? 0) && negb (hr_nco h) then hd_lit (hr_d h) - 1
                   else hd_lit (hr_d h) in
        match update_first acc (hd_var (hr_d h)) lit with
        | Some acc' => depth_loop r acc'
        | None =>
            if (match hd_var (hr_d h) with Some _ => true | None => false end) || (0 <? lit)
            then depth_loop r (acc ++ [plain_depth (hd_var (hr_d h)) lit])
            else depth_loop r acc
        end
  end.

Definition create_depth_list (hs : list hread) : list hdepth :=
  if forallb annexed_like hs then
    [ {| hd_max := false; hd_maxm1 := false; hd_var := None; hd_lit := 1; hd_ann := true |} ]
  else if existsb (fun h => hd_max (hr_d h) && hr_nco h) hs then
    [ {| hd_max := true; hd_maxm1 := false; hd_var := None; hd_lit := 0; hd_ann := false |} ]
  else
    let start := if existsb (fun h => hd_max (hr_d h)) hs
                 then [ {| hd_max := false; hd_maxm1 := true; hd_var := None; hd_lit := 0; hd_ann := false |} ]
                 else [] in
    depth_loop hs start.

(* LFRicHaloExchange.required: (required, known).  [w] = None: no previous writer in the invoke. *)
Definition single_annexed (rc : list hdepth) : bool :=
  match rc with [d] => hd_ann d | _ => false end.

(* [fixed] = the repair proposed in props/C22/fix.patch is present in the tree under test (the check probes
   the implementation); [required] is the code as it is today *)
Definition required_gen (fixed : bool) (annexed_cfg : bool) (rc : list hdepth) (w : option hwrite) : bool * bool :=
  if annexed_cfg && single_annexed rc then (false, true)
  else match w with
  | None => (true, false)
  | Some c =>
      if hw_max c then
        if negb (hw_dirty_outer c) then (false, true)
        else match rc with
             | d :: _ => if hd_max d then (true, true) else (true, false)
             | [] => (true, false)
             end
      else if hw_lit c =? 0 then (true, true)
      else if (hw_lit c =? 1) && hw_dirty_outer c then
        (if single_annexed rc then (false, true) else (true, true))
      else
        let clean := if hw_dirty_outer c then hw_lit c - 1 else hw_lit c in
        if (1 <? N.of_nat (length rc)) && existsb (fun d => clean <? hd_lit d) rc then (true, true)
        else match rc with
             | [d] => if (match hd_var d with Some _ => true | None => false end) || hd_max d
                         || (fixed && hd_maxm1 d)
                      then (true, false)
                      else if clean <? hd_lit d then (true, true) else (false, true)
             | _ => (true, false)
             end
  end.

Definition required := required_gen false.

(* LFRicLoop._halo_read_access for a field argument; None = GenerationError *)
Record larg := { l_acc : access; l_stencil : bool; l_ub : bound; l_disc : bool; l_cellcol : bool; l_auw : bool }.

Definition halo_read_access (annexed_cfg : bool) (a : larg) : option bool :=
  match l_acc a with
  | AWrite => Some false
  | _ =>
      if l_stencil a then
        match l_ub a with BCellHalo | BNcells => Some true | _ => None end
      else if halo_bound (l_ub a) then Some true
      else if negb (l_disc a) && l_cellcol a && l_auw a &&
              match l_ub a with BNcells => true | _ => false end then Some false
      else if negb (l_disc a) && match l_ub a with BNcells | BNannexed => true | _ => false end
      then Some (negb annexed_cfg)
      else Some false
  end.

(* symbolic depths as they appear in the generated code (HaloDepth.__str__ / psyir_expression) *)
Inductive sdepth := SLit (n : N) | SVar (dbl : bool) (v : N) (n : N) | SMax | SMaxM1.

Definition sd_of_hd (d : hdepth) : sdepth :=
  if hd_max d then SMax else if hd_maxm1 d then SMaxM1
  else match hd_var d with Some (b, v) => SVar b v (hd_lit d) | None => SLit (hd_lit d) end.

Definition sdepth_eqb (x y : sdepth) : bool :=
  match x, y with
  | SLit n, SLit m => n =? m
  | SVar b v n, SVar b' v' n' => Bool.eqb b b' && (v =? v') && (n =? n')
  | SMax, SMax | SMaxM1, SMaxM1 => true
  | _, _ => false
  end.

(* gen_mark_halos_clean_dirty: (set_dirty emitted?, depth of set_clean if emitted) *)
Definition marks (h : hwrite) : bool * option sdepth :=
  let dirty := negb (hw_max h) || hw_dirty_outer h in
  let clean :=
    if negb (hw_lit h =? 0) then
      let d := if hw_dirty_outer h then hw_lit h - 1 else hw_lit h in
      if 0 <? d then Some (SLit d) else None
    else if hw_max h then Some (if hw_dirty_outer h then SMaxM1 else SMax)
    else None in
  (dirty, clean).

(* ------------------------------------------------------------------------------------------ B *)
Definition env := N -> N.
Definition eval_sd (M : N) (e : env) (d : sdepth) : N :=
  match d with
  | SLit n => n
  | SVar b v n => (if b then 2 * e v else e v) + n
  | SMax => M
  | SMaxM1 => M - 1
  end.

(* a run-time configuration: halo depth M >= 1, stencil extents >= 1 *)
Definition valid_cfg (M : N) (e : env) : Prop := 1 <= M /\ forall v, 1 <= e v.

(* loops as the generated code bounds them *)
Inductive ldepth := LD (n : N) | LDMax.
Inductive lkind := KCells (d : ldepth) | KDofsOwned | KDofsAnnexed | KDofsHalo (d : ldepth) | KDomain.

(* one field argument of a kernel: access, real continuity of the field, stencil, and whether the kernel
   is of the "all updates are GH_WRITE and it modifies a continuous (or any_space) field" kind *)
Record targ := { t_acc : access; t_cont : bool; t_stencil : option extent; t_ghwc : bool }.

Definition sd_of_ld (d : ldepth) : sdepth := match d with LD n => SLit n | LDMax => SMax end.

(* what is really read: (halo depth, annexed dofs needed when that depth is 0).  None: invalid (stencil
   with a maximum-depth loop; PSyclone refuses to generate this) *)
Definition true_need (k : lkind) (a : targ) : option (sdepth * bool) :=
  match t_acc a with
  | AWrite => Some (SLit 0, false)
  | acc =>
      match k with
      | KDomain | KDofsOwned => Some (SLit 0, false)
      | KDofsAnnexed => Some (SLit 0, t_cont a)
      | KDofsHalo d => Some (sd_of_ld d, t_cont a)
      | KCells d =>
          match t_stencil a with
          | Some e =>
              match d, e with
              | LD n, ELit m => Some (SLit (n + m), t_cont a)
              | LD n, EVar v => Some (SVar false v n, t_cont a)
              | LDMax, _ => None
              end
          | None =>
              match acc with
              | AInc => Some (match d with LD n => SLit (n - 1) | LDMax => SMaxM1 end, t_cont a)
              | _ =>
                  match d with
                  | LD 0 => if access_eqb acc ARead && t_ghwc a then Some (SLit 0, false)
                            else Some (SLit 0, t_cont a)
                  | _ => Some (sd_of_ld d, t_cont a)
                  end
              end
          end
      end
  end.

(* what is really left clean for a written field: (clean depth, annexed dofs clean) *)
Definition true_after (k : lkind) (a : targ) : sdepth * bool :=
  match k with
  | KDomain => (SLit 0, true)
  | KDofsOwned => (SLit 0, negb (t_cont a))
  | KDofsAnnexed => (SLit 0, true)
  | KDofsHalo d => (sd_of_ld d, true)
  | KCells d =>
      if negb (t_cont a) then (sd_of_ld d, true)
      else match t_acc a with
           | AWrite => (sd_of_ld d, true)
           | _ => match d with
                  | LD 0 => (SLit 0, false)
                  | LD n => (SLit (n - 1), true)
                  | LDMax => (SMaxM1, true)
                  end
           end
  end.

(* ------------------------------------------------------------------------------------------ C *)
(* the generated invoke as seen by ONE field *)
Inductive stmt :=
| SHx (ds : list sdepth) (checked : bool)       (* [if (is_dirty(d))] halo_exchange(d), d = max ds *)
| SLoop (reads : list (sdepth * bool)) (write : option (sdepth * bool))
| SDirty
| SClean (d : sdepth).

Record fstate := { fa : N; fr : N; fann : bool }.  (* actual clean depth, recorded clean depth, annexed clean *)
Inductive result := Ok (s : fstate) (after_mark : bool) | DirtyRead | RecordedCleaner | Invalid.

Definition eval_max (M : N) (e : env) (ds : list sdepth) : N :=
  fold_right (fun d acc => N.max (eval_sd M e d) acc) 0 ds.

Definition read_ok (M : N) (e : env) (s : fstate) (rd : sdepth * bool) : bool :=
  let n := eval_sd M e (fst rd) in
  (n <=? fa s) && (negb (snd rd) || fann s).

Definition read_valid (M : N) (e : env) (rd : sdepth * bool) : bool := eval_sd M e (fst rd) <=? M.

Definition step (M : N) (e : env) (s : fstate) (am : bool) (st : stmt) : result :=
  match st with
  | SDirty => Ok {| fa := fa s; fr := 0; fann := fann s |} true
  | SClean d =>
      let n := eval_sd M e d in
      if M <? n then Invalid else Ok {| fa := fa s; fr := N.max (fr s) n; fann := fann s |} true
  | SHx ds checked =>
      if fa s <? fr s then RecordedCleaner
      else
        let d := N.min (eval_max M e ds) M in
        if checked && negb (fr s <? d) then Ok s false
        else if d =? 0 then Ok s false
        else Ok {| fa := N.max (fa s) d; fr := N.max (fr s) d; fann := true |} false
  | SLoop reads write =>
      if am && (fa s <? fr s) then RecordedCleaner
      else if negb (forallb (read_valid M e) reads) then Invalid
      else if negb (forallb (read_ok M e s) reads) then DirtyRead
      else match write with
           | None => Ok s false
           | Some (d, ann) =>
               let n := eval_sd M e d in
               if M <? n then Invalid
               else Ok {| fa := n; fr := fr s; fann := ann || (1 <=? n) |} false
           end
  end.

Fixpoint run (M : N) (e : env) (p : list stmt) (s : fstate) (am : bool) : result :=
  match p with
  | [] => if fa s <? fr s then RecordedCleaner else Ok s am
  | st :: r => match step M e s am st with
               | Ok s' am' => run M e r s' am'
               | bad => bad
               end
  end.

(* initial states: recorded = actual (worst case), within the halo, annexed dofs clean when the level-1
   halo is clean, and clean annexed dofs when COMPUTE_ANNEXED_DOFS is on *)
Definition init_ok (annexed_cfg : bool) (M : N) (s : fstate) : Prop :=
  fr s <= fa s /\ fa s <= M /\ (1 <= fa s -> fann s = true) /\ (annexed_cfg = true -> fann s = true).

(* --- the checkable placement condition: abstract interpretation with symbolic lower bounds *)
(* [mlo]: a lower bound of the halo depth M known statically (the deepest literal loop depth of the invoke:
   a configuration with a smaller M is not valid) *)
Definition covers (mlo : N) (have need : sdepth) : bool :=
  match need with
  | SLit 0 => true
  | _ =>
    match have, need with
    | SMax, _ => true
    | SMaxM1, SMaxM1 => true
    | SMaxM1, SLit m => m + 1 <=? mlo
    | SLit n, SLit m => m <=? n
    | SVar b v n, SVar b' v' m => Bool.eqb b b' && (v =? v') && (m <=? n)
    | SVar _ _ n, SLit m => m <=? n
    | _, _ => false
    end
  end.

Definition covered (mlo : N) (lb : list sdepth) (need : sdepth) : bool :=
  match need with SLit 0 => true | _ => existsb (fun h => covers mlo h need) lb end.

(* depth known to be >= 1 in every valid configuration *)
Definition ge1 (mlo : N) (d : sdepth) : bool :=
  match d with SLit n => 1 <=? n | SVar _ _ _ => true | SMax => true | SMaxM1 => 2 <=? mlo end.

Record astate := { lb : list sdepth; annk : bool; rok : bool; amk : bool }.

Definition astep (mlo : N) (a : astate) (st : stmt) : option astate :=
  match st with
  | SDirty => Some {| lb := lb a; annk := annk a; rok := true; amk := true |}
  | SClean d =>
      Some {| lb := lb a; annk := annk a;
              rok := (rok a || existsb (sdepth_eqb SMax) (lb a)) && covered mlo (lb a) d; amk := true |}
  | SHx ds checked =>
      if rok a then Some {| lb := ds ++ lb a; annk := annk a || existsb (ge1 mlo) ds; rok := true; amk := false |}
      else None
  | SLoop reads write =>
      if amk a && negb (rok a) then None
      else if forallb (fun rd => covered mlo (lb a) (fst rd) &&
                                 (negb (snd rd) || annk a || existsb (ge1 mlo) (lb a))) reads
      then match write with
           | None => Some {| lb := lb a; annk := annk a; rok := rok a; amk := false |}
           | Some (d, ann) => Some {| lb := [d]; annk := ann || ge1 mlo d; rok := false; amk := false |}
           end
      else None
  end.

Fixpoint arun (mlo : N) (p : list stmt) (a : astate) : option astate :=
  match p with
  | [] => Some a
  | st :: r => match astep mlo a st with Some a' => arun mlo r a' | None => None end
  end.

(* [cont]: the field is continuous (then COMPUTE_ANNEXED_DOFS requires clean annexed dofs on exit) *)
Definition well_placed (mlo : N) (annexed_cfg cont : bool) (p : list stmt) : bool :=
  match arun mlo p {| lb := []; annk := annexed_cfg; rok := true; amk := false |} with
  | Some a => rok a && (negb (annexed_cfg && cont) || annk a || existsb (ge1 mlo) (lb a))
  | None => false
  end.
