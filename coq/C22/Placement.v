(* C22 — soundness of the placement predicate: a generated invoke (seen by one field) that satisfies
   [well_placed] never reads a dirty halo / dirty annexed dofs and never leaves a recorded state
   cleaner than the actual one, from ANY admissible initial state, for ANY halo depth M >= 1 and ANY
   run-time stencil extents >= 1.  Induction over the statement list with the abstraction [gamma]. *)
From Coq Require Import List NArith Bool Lia.
Import ListNotations.
From PV Require Import C22.Model.
Open Scope N_scope.

Lemma covers_sound : forall mlo M e h n, valid_cfg M e -> mlo <= M -> covers mlo h n = true ->
  eval_sd M e n <= M -> eval_sd M e n <= N.min (eval_sd M e h) M.
Proof.
  intros mlo M e h n [HM He] Hmlo Hc Hn.
  destruct n as [m | b' v' m | | ].
  - destruct m as [|p].
    + cbn [eval_sd]. lia.
    + cbn [covers] in Hc. destruct h as [k | b v k | | ]; cbn [eval_sd] in *.
      * apply N.leb_le in Hc. lia.
      * apply N.leb_le in Hc. specialize (He v). destruct b; lia.
      * lia.
      * apply N.leb_le in Hc. lia.
  - cbn [covers] in Hc. destruct h as [k | b v k | | ]; cbn [eval_sd] in *; try discriminate.
    + apply andb_prop in Hc. destruct Hc as [Hc Hm]. apply andb_prop in Hc. destruct Hc as [Hb Hv].
      apply N.leb_le in Hm. apply N.eqb_eq in Hv. apply Bool.eqb_prop in Hb. subst. destruct b'; lia.
    + lia.
  - cbn [covers] in Hc. destruct h; cbn [eval_sd] in *; try discriminate. lia.
  - cbn [covers] in Hc. destruct h; cbn [eval_sd] in *; try discriminate; lia.
Qed.

Lemma ge1_sound : forall mlo M e d, valid_cfg M e -> mlo <= M -> ge1 mlo d = true ->
  1 <= N.min (eval_sd M e d) M.
Proof.
  intros mlo M e d [HM He] Hmlo H. destruct d as [n | b v n | | ]; cbn [ge1 eval_sd] in *.
  - apply N.leb_le in H. lia.
  - specialize (He v). destruct b; lia.
  - lia.
  - apply N.leb_le in H. lia.
Qed.

Definition gamma (M : N) (e : env) (a : astate) (s : fstate) : Prop :=
  (forall d, In d (lb a) -> N.min (eval_sd M e d) M <= fa s) /\
  (annk a = true -> fann s = true) /\
  (rok a = true -> fr s <= fa s) /\
  fr s <= M /\ fa s <= M /\ (1 <= fa s -> fann s = true).

Lemma covered_sound : forall mlo M e a s n, valid_cfg M e -> mlo <= M -> gamma M e a s ->
  covered mlo (lb a) n = true -> eval_sd M e n <= M -> eval_sd M e n <= fa s.
Proof.
  intros mlo M e a s n Hv Hmlo Hg Hc Hn. destruct Hg as [Hlb _].
  assert (Hz : n = SLit 0 \/ existsb (fun h => covers mlo h n) (lb a) = true).
  { unfold covered in Hc. destruct n as [m| | | ]; auto. destruct m; auto. }
  destruct Hz as [-> | Hex].
  - cbn [eval_sd]. lia.
  - apply existsb_exists in Hex. destruct Hex as [h [Hin Hcov]].
    pose proof (covers_sound mlo M e h n Hv Hmlo Hcov Hn). specialize (Hlb h Hin). lia.
Qed.

Lemma ge1_list_sound : forall mlo M e a s, valid_cfg M e -> mlo <= M -> gamma M e a s ->
  existsb (ge1 mlo) (lb a) = true -> fann s = true.
Proof.
  intros mlo M e a s Hv Hmlo Hg Hex. apply existsb_exists in Hex. destruct Hex as [h [Hin Hg1]].
  destruct Hg as [Hlb [_ [_ [_ [_ Hinv]]]]]. apply Hinv.
  pose proof (ge1_sound mlo M e h Hv Hmlo Hg1). specialize (Hlb h Hin). lia.
Qed.

Lemma eval_max_ge : forall M e ds d, In d ds -> eval_sd M e d <= eval_max M e ds.
Proof.
  intros M e ds. induction ds as [|x r IH]; intros d Hin; [destruct Hin|].
  cbn [eval_max fold_right]. destruct Hin as [-> | Hin].
  - lia.
  - specialize (IH d Hin). unfold eval_max in IH. lia.
Qed.

Lemma has_max_sound : forall M e a s, gamma M e a s ->
  existsb (sdepth_eqb SMax) (lb a) = true -> fa s = M.
Proof.
  intros M e a s Hg Hex. apply existsb_exists in Hex. destruct Hex as [h [Hin Heq]].
  destruct h; cbn [sdepth_eqb] in Heq; try discriminate.
  destruct Hg as [Hlb [_ [_ [_ [Ha _]]]]]. specialize (Hlb SMax Hin). cbn [eval_sd] in Hlb. lia.
Qed.

(* one step *)
Lemma step_sound : forall mlo M e a s st a', valid_cfg M e -> mlo <= M -> gamma M e a s ->
  astep mlo a st = Some a' ->
  match step M e s (amk a) st with
  | Ok s' am' => gamma M e a' s' /\ am' = amk a'
  | Invalid => True
  | DirtyRead | RecordedCleaner => False
  end.
Proof.
  intros mlo M e a s st a' Hv Hmlo Hg Hst.
  pose proof Hg as Hg0.
  destruct Hg as [Hlb [Hann [Hrok [HrM [HaM Hinv]]]]].
  destruct st as [ds checked | reads write | | d]; cbn [astep] in Hst.
  - (* SHx *)
    destruct (rok a) eqn:Erok; [|discriminate]. inversion Hst; subst a'; clear Hst.
    specialize (Hrok eq_refl). cbn [step].
    destruct (fa s <? fr s) eqn:E1; [apply N.ltb_lt in E1; lia|].
    set (dd := N.min (eval_max M e ds) M).
    assert (Hcase : forall s', (fa s' = fa s /\ fr s' = fr s /\ fann s' = fann s /\ dd <= fa s) \/
                               (fa s' = N.max (fa s) dd /\ fr s' = N.max (fr s) dd /\ fann s' = true /\ 1 <= dd) ->
                               gamma M e {| lb := ds ++ lb a; annk := annk a || existsb (ge1 mlo) ds; rok := true; amk := false |} s').
    { intros s' Hc. unfold gamma; cbn [lb annk rok amk].
      assert (Hdd : dd <= fa s') by (destruct Hc as [[? [? [? ?]]] | [? [? [? ?]]]]; lia).
      assert (Hge : fa s <= fa s') by (destruct Hc as [[? [? [? ?]]] | [? [? [? ?]]]]; lia).
      repeat split.
      - intros d Hin. apply in_app_or in Hin. destruct Hin as [Hin | Hin].
        + pose proof (eval_max_ge M e ds d Hin). unfold dd in Hdd. lia.
        + specialize (Hlb d Hin). lia.
      - intros Hk. apply orb_prop in Hk. destruct Hk as [Hk | Hk].
        + destruct Hc as [[? [? [-> ?]]] | [? [? [-> ?]]]]; auto.
        + apply existsb_exists in Hk. destruct Hk as [h [Hin Hg1]].
          pose proof (ge1_sound mlo M e h Hv Hmlo Hg1). pose proof (eval_max_ge M e ds h Hin).
          destruct Hc as [[Ha' [? [-> ?]]] | [? [? [-> ?]]]]; auto.
          apply Hinv. unfold dd in *. lia.
      - intros _. destruct Hc as [[-> [-> [? ?]]] | [-> [-> [? ?]]]]; lia.
      - destruct Hc as [[? [-> [? ?]]] | [? [-> [? ?]]]]; unfold dd in *; lia.
      - destruct Hc as [[-> [? [? ?]]] | [-> [? [? ?]]]]; unfold dd in *; lia.
      - intros H1. destruct Hc as [[Ha' [? [-> ?]]] | [? [? [-> ?]]]]; auto. apply Hinv. lia. }
    destruct (checked && negb (fr s <? dd)) eqn:E2.
    + split; [|reflexivity]. apply Hcase. left.
      apply andb_prop in E2. destruct E2 as [_ E2]. apply negb_true_iff in E2. apply N.ltb_ge in E2.
      repeat split; lia.
    + destruct (dd =? 0) eqn:E3.
      * apply N.eqb_eq in E3. split; [|reflexivity]. apply Hcase. left. repeat split; lia.
      * apply N.eqb_neq in E3. split; [|reflexivity]. apply Hcase. right. cbn [fa fr fann].
        repeat split; lia.
  - (* SLoop *)
    destruct (amk a && negb (rok a)) eqn:E0; [discriminate|].
    destruct (forallb _ reads) eqn:Ereads; [|discriminate].
    cbn [step].
    assert (Hrc : amk a && (fa s <? fr s) = false).
    { destruct (amk a); cbn in *; auto. apply negb_false_iff in E0. specialize (Hrok E0).
      apply N.ltb_ge. lia. }
    rewrite Hrc.
    destruct (forallb (read_valid M e) reads) eqn:Evalid; cbn [negb]; [|exact I].
    assert (Hok : forallb (read_ok M e s) reads = true).
    { apply forallb_forall. intros rd Hin.
      rewrite forallb_forall in Ereads. specialize (Ereads rd Hin).
      rewrite forallb_forall in Evalid. specialize (Evalid rd Hin).
      unfold read_valid in Evalid. apply N.leb_le in Evalid.
      apply andb_prop in Ereads. destruct Ereads as [Hcov Hna].
      unfold read_ok. apply andb_true_intro. split.
      - apply N.leb_le. apply (covered_sound mlo M e a s (fst rd) Hv Hmlo Hg0 Hcov Evalid).
      - destruct (snd rd); cbn [negb orb] in *; auto.
        apply orb_prop in Hna. destruct Hna as [Hk | Hk]; auto.
        apply (ge1_list_sound mlo M e a s Hv Hmlo Hg0 Hk). }
    rewrite Hok. cbn [negb].
    destruct write as [[d ann]|].
    + inversion Hst; subst a'; clear Hst.
      destruct (M <? eval_sd M e d) eqn:EM; [exact I|]. apply N.ltb_ge in EM.
      split; [|reflexivity]. unfold gamma; cbn [lb annk rok amk fa fr fann]. repeat split.
      * intros d0 [<- | []]. lia.
      * intros Hk. apply orb_prop in Hk. destruct Hk as [-> | Hk]; [reflexivity|].
        pose proof (ge1_sound mlo M e d Hv Hmlo Hk). apply orb_true_iff. right. apply N.leb_le. lia.
      * discriminate.
      * exact HrM.
      * exact EM.
      * intros H1. apply orb_true_iff. right. apply N.leb_le. exact H1.
    + inversion Hst; subst a'; clear Hst. split; [|reflexivity].
      unfold gamma; cbn [lb annk rok amk]. repeat split; auto.
  - (* SDirty *)
    inversion Hst; subst a'; clear Hst. cbn [step]. split; [|reflexivity].
    unfold gamma; cbn [lb annk rok amk fa fr fann]. repeat split; auto; lia.
  - (* SClean *)
    inversion Hst; subst a'; clear Hst. cbn [step].
    destruct (M <? eval_sd M e d) eqn:EM; [exact I|]. apply N.ltb_ge in EM.
    split; [|reflexivity]. unfold gamma; cbn [lb annk rok amk fa fr fann]. repeat split; auto; try lia.
    intros Hk. apply andb_prop in Hk. destruct Hk as [Hk1 Hk2].
    pose proof (covered_sound mlo M e a s d Hv Hmlo Hg0 Hk2 EM) as Hd.
    apply orb_prop in Hk1. destruct Hk1 as [Hk1 | Hk1].
    + specialize (Hrok Hk1). lia.
    + pose proof (has_max_sound M e a s Hg0 Hk1). lia.
Qed.

Lemma arun_sound : forall mlo M e p a s af, valid_cfg M e -> mlo <= M -> gamma M e a s ->
  arun mlo p a = Some af ->
  match run M e p s (amk a) with
  | Ok s' _ => gamma M e af s'
  | Invalid => True
  | DirtyRead => False
  | RecordedCleaner => rok af = false
  end.
Proof.
  intros mlo M e p. induction p as [|st r IH]; intros a s af Hv Hmlo Hg Hrun.
  - cbn [arun] in Hrun. inversion Hrun; subst af. cbn [run].
    destruct (fa s <? fr s) eqn:E.
    + apply N.ltb_lt in E. destruct (rok a) eqn:Er; auto.
      destruct Hg as [_ [_ [Hrok _]]]. specialize (Hrok Er). lia.
    + exact Hg.
  - cbn [arun] in Hrun. destruct (astep mlo a st) as [a1|] eqn:Est; [|discriminate].
    pose proof (step_sound mlo M e a s st a1 Hv Hmlo Hg Est) as Hs. cbn [run].
    destruct (step M e s (amk a) st) as [s1 am1 | | | ]; try contradiction; auto.
    destruct Hs as [Hg1 ->]. apply (IH a1 s1 af Hv Hmlo Hg1 Hrun).
Qed.

Lemma init_gamma : forall cfg M s, init_ok cfg M s ->
  forall e, gamma M e {| lb := []; annk := cfg; rok := true; amk := false |} s.
Proof.
  intros cfg M s [H1 [H2 [H3 H4]]] e. unfold gamma; cbn [lb annk rok amk]. repeat split; auto.
  - intros d [].
  - lia.
Qed.

(* never reads dirty + recorded no cleaner, for all M, extents and initial states *)
Theorem placement_safe_ : forall mlo cfg cont p, well_placed mlo cfg cont p = true ->
  forall M e s0, valid_cfg M e -> mlo <= M -> init_ok cfg M s0 ->
  match run M e p s0 false with
  | Ok s _ => fr s <= fa s /\ (cfg && cont = true -> fann s = true)
  | Invalid => True
  | DirtyRead | RecordedCleaner => False
  end.
Proof.
  intros mlo cfg cont p Hwp M e s0 Hv Hmlo Hi. unfold well_placed in Hwp.
  destruct (arun mlo p _) as [af|] eqn:Hrun; [|discriminate].
  apply andb_prop in Hwp. destruct Hwp as [Hrok Hex].
  pose proof (arun_sound mlo M e p _ s0 af Hv Hmlo (init_gamma cfg M s0 Hi e) Hrun) as H.
  cbn [amk] in H.
  destruct (run M e p s0 false) as [s am | | | ]; auto.
  - split.
    + destruct H as [_ [_ [Hr _]]]. apply Hr. exact Hrok.
    + intros Hc. rewrite Hc in Hex. cbn [negb orb] in Hex.
      apply orb_prop in Hex. destruct Hex as [Hk | Hk].
      * destruct H as [_ [Ha _]]. apply Ha. exact Hk.
      * apply (ge1_list_sound mlo M e af s Hv Hmlo H Hk).
  - congruence.
Qed.
