(* C22 — boolean check functions evaluated (vm_compute) on cases produced by props/C22/check.py from the
   real implementation's schedules and generated code.  No proofs here. *)
From Coq Require Import List NArith Bool.
Import ListNotations.
From PV Require Import C22.Model C22.Required C22.Access C22.DepthList.
Open Scope N_scope.

Definition opt_eqb {A} (f : A -> A -> bool) (x y : option A) : bool :=
  match x, y with Some a, Some b => f a b | None, None => true | _, _ => false end.

Fixpoint list_eqb {A} (f : A -> A -> bool) (x y : list A) : bool :=
  match x, y with
  | [], [] => true
  | a :: r, b :: s => f a b && list_eqb f r s
  | _, _ => false
  end.

Definition hdepth_eqb (x y : hdepth) : bool :=
  Bool.eqb (hd_max x) (hd_max y) && Bool.eqb (hd_maxm1 x) (hd_maxm1 y) && var_eqb (hd_var x) (hd_var y)
  && (hd_lit x =? hd_lit y) && Bool.eqb (hd_ann x) (hd_ann y).
Definition hread_eqb (x y : hread) : bool := hdepth_eqb (hr_d x) (hr_d y) && Bool.eqb (hr_nco x) (hr_nco y).
Definition hwrite_eqb (x y : hwrite) : bool :=
  Bool.eqb (hw_max x) (hw_max y) && (hw_lit x =? hw_lit y) && Bool.eqb (hw_dirty_outer x) (hw_dirty_outer y).
Definition bb_eqb (x y : bool * bool) : bool := Bool.eqb (fst x) (fst y) && Bool.eqb (snd x) (snd y).

(* statements of the generated invoke as seen by one field, loops still described by metadata *)
Inductive fstmt :=
| FHx (ds : list sdepth) (checked : bool)
| FLoop (k : lkind) (args : list targ)
| FDirty
| FClean (d : sdepth).

Definition is_write (t : targ) : bool := negb (access_eqb (t_acc t) ARead).

Fixpoint needs_of (k : lkind) (args : list targ) : option (list (sdepth * bool)) :=
  match args with
  | [] => Some []
  | t :: r => match true_need k t, needs_of k r with
              | Some n, Some l => Some (n :: l)
              | _, _ => None
              end
  end.

(* several written arguments of the same field in one loop: the least clean result *)
Definition after_of (k : lkind) (args : list targ) : option (sdepth * bool) :=
  match filter is_write args with
  | [] => None
  | t :: _ => Some (true_after k t)
  end.

Fixpoint build (p : list fstmt) : option (list stmt) :=
  match p with
  | [] => Some []
  | s :: r =>
      match build r with
      | None => None
      | Some r' =>
          match s with
          | FHx ds c => Some (SHx ds c :: r')
          | FDirty => Some (SDirty :: r')
          | FClean d => Some (SClean d :: r')
          | FLoop k args => match needs_of k args with
                            | Some reads => Some (SLoop reads (after_of k args) :: r')
                            | None => None
                            end
          end
      end
  end.

(* run-time configurations are supplied by the harness: (M, extent of variable 0, extent of variable 1);
   every admissible initial state is enumerated here *)
Definition range0 (n : N) : list N := map N.of_nat (seq 0 (S (N.to_nat n))).

Definition env_of (c : N * N * N) : env := fun v => if v =? 0 then snd (fst c) else snd c.

Definition inits (cfg cont : bool) (M : N) : list fstate :=
  (if cont && negb cfg then [ {| fa := 0; fr := 0; fann := false |} ] else [])
  ++ map (fun d => {| fa := d; fr := d; fann := true |}) (range0 M).

Definition bad (r : result) : bool := match r with DirtyRead | RecordedCleaner => true | _ => false end.
Definition exit_bad (cfg cont : bool) (r : result) : bool :=
  match r with Ok s _ => cfg && cont && negb (fann s) | _ => false end.

(* no dirty read / recorded-cleaner / broken annexed invariant in any of the configurations *)
Definition all_safe (cfg cont : bool) (cfgs : list (N * N * N)) (p : list stmt) : bool :=
  forallb (fun c =>
      forallb (fun s0 => let r := run (fst (fst c)) (env_of c) p s0 false in
                         negb (bad r) && negb (exit_bad cfg cont r))
              (inits cfg cont (fst (fst c))))
    cfgs.

Inductive hcase :=
| CX (fixed cfg : bool) (readers : list (rarg * hread)) (obs : list hdepth) (w : option (warg * hwrite)) (req : bool * bool)
| CL (cfg : bool) (l : larg) (obs : option bool)
| CM (w : warg) (dirty : bool) (clean : option sdepth)
| CR (fixed1 cfg : bool) (a : rarg) (k : lkind) (t : targ)     (* structural premise compat_r (+ r_auw = t_ghwc over owned cells when the F1 repair is present) *)
| CW (cfg : bool) (w : warg) (k : lkind) (t : targ)            (* structural premise compat_w *)
| CF (cfg cont : bool) (cfgs : list (N * N * N)) (p : list fstmt) (py_safe : bool)   (* Python machine = Coq machine *)
| CP (mlo : N) (cfg cont : bool) (p : list fstmt).                               (* well_placed *)

Definition check (c : hcase) : bool :=
  match c with
  | CX fixed cfg readers obs w req =>
      forallb (fun ah => match read_access (fst ah) with Some h' => hread_eqb h' (snd ah) | None => false end) readers
      && list_eqb hdepth_eqb (create_depth_list (map snd readers)) obs
      && forallb wf (map snd readers)
      && match w with Some (wa, hw) => hwrite_eqb (write_access wa) hw | None => true end
      && bb_eqb (required_gen fixed cfg obs (option_map snd w)) req
  | CL cfg l obs => opt_eqb Bool.eqb (halo_read_access cfg l) obs
  | CM w dirty clean =>
      let m := marks (write_access w) in Bool.eqb (fst m) dirty && opt_eqb sdepth_eqb (snd m) clean
  | CR fixed1 cfg a k t =>
      compat_r cfg a k t && opt_eqb (fun x y => true) (lkind_of (r_ub a) (r_ubd a)) (Some k)
      && (negb fixed1 || negb (match r_ub a with BNcells => true | _ => false end) || Bool.eqb (r_auw a) (t_ghwc t))
  | CW cfg w k t => compat_w cfg w k t
  | CF cfg cont cfgs p py_safe =>
      match build p with Some q => Bool.eqb (all_safe cfg cont cfgs q) py_safe | None => false end
  | CP mlo cfg cont p => match build p with Some q => well_placed mlo cfg cont q | None => false end
  end.
