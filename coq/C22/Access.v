(* C22 — PSyclone's halo read / write information against the ground truth.
   read_access_covers_partial : outside the gap [read_gap], what HaloReadAccess records for a reader is at
                                least what the kernel argument really reads (all M, extents);
   read_access_refuted        : in the gap (a kernel whose only updates are GH_WRITE to DISCONTINUOUS
                                fields, reading a continuous field over owned cells) it records nothing
                                although annexed dofs are read;
   halo_read_false_sound / _refuted : the same for LFRicLoop._halo_read_access (which decides whether an
                                exchange is created at all);
   write_belief_sound         : what HaloWriteAccess claims is left clean is no more than what is;
   marks_no_cleaner           : the set_dirty/set_clean calls of gen_mark_halos_clean_dirty record a state
                                no cleaner than what the loop computed.
   The structural premises ([compat_r], [compat_w]) relate the two descriptions of the same loop /
   argument; they are evaluated on every reader and writer of the generated invokes by the check. *)
From Coq Require Import List NArith Bool Lia.
Import ListNotations.
From PV Require Import C22.Model C22.Required.
Open Scope N_scope.

Definition ld_of (ubd : option N) : ldepth := match truthy ubd with Some d => LD d | None => LDMax end.

(* how a loop's bound name becomes the generated bound (LFRicLoop._upper_bound_fortran) *)
Definition lkind_of (ub : bound) (ubd : option N) : option lkind :=
  match ub with
  | BNcells | BNcolour => Some (KCells (LD 0))
  | BCellHalo | BColourHalo => Some (KCells (ld_of ubd))
  | BNdofs => Some KDofsOwned
  | BNannexed => Some KDofsAnnexed
  | BDofHalo => Some (KDofsHalo (ld_of ubd))
  | _ => None
  end.

(* what a HaloReadAccess demands at run time: (depth, annexed dofs) *)
Definition hr_need (M : N) (e : env) (h : hread) : N * bool :=
  if hd_ann (hr_d h) then (0, true)
  else
    let full := eval_sd M e (sd_of_hd (hr_d h)) in
    if hr_nco h then (full, false) else (full - 1, true).

(* a demand is met by a recorded demand: deeper, and annexed dofs are covered explicitly, by a depth >= 1
   exchange, or because COMPUTE_ANNEXED_DOFS keeps them clean *)
Definition meets (cfg : bool) (have need : N * bool) : Prop :=
  fst need <= fst have /\ (snd need = true -> snd have = true \/ 1 <= fst have \/ cfg = true).

Definition is_cells (k : lkind) : bool := match k with KCells _ => true | _ => false end.

(* same argument / loop seen by PSyclone (rarg) and by the ground truth (lkind, targ) *)
Definition compat_r (cfg : bool) (a : rarg) (k : lkind) (t : targ) : bool :=
  access_eqb (r_acc a) (t_acc t)
  && negb (r_fine a)
  && (match r_stencil a, t_stencil t with
      | None, None => true
      | Some (ELit n), Some (ELit m) => (n =? m) && (1 <=? n)
      | Some (EVar v), Some (EVar w) => v =? w
      | _, _ => false
      end)
  && (negb (r_disc a) || negb (t_cont t))                       (* discontinuous metadata => discontinuous field *)
  && (match r_acc a with AReadWrite => r_disc a || r_dofkern a | _ => true end) (* GH_READWRITE: discontinuous spaces, or pointwise (built-ins) *)
  && (match r_acc a with AInc | AReadWrite | AReadInc => negb (r_auw a) | _ => true end)
  && (match r_stencil a with Some _ => access_eqb (r_acc a) ARead && is_cells k | None => true end)
  && Bool.eqb (r_dofkern a) (negb (is_cells k))
  && (match r_ub a with
      | BNannexed => cfg                                          (* nannexed only with COMPUTE_ANNEXED_DOFS *)
      | BNcolour => negb (t_cont t) || (access_eqb (r_acc a) ARead && t_ghwc t) || access_eqb (r_acc a) AWrite
      | _ => true
      end).

(* the gap: kernel with all_updates_are_writes that does NOT modify a continuous field, reading a continuous
   field without stencil over owned cells *)
Definition read_gap (a : rarg) (t : targ) : bool :=
  access_eqb (r_acc a) ARead && r_auw a && negb (t_ghwc t) && t_cont t &&
  match r_ub a, r_stencil a with BNcells, None => true | _, _ => false end.

Lemma and9 : forall a b c d e f g h i : bool,
  a && b && c && d && e && f && g && h && i = true ->
  a = true /\ b = true /\ c = true /\ d = true /\ e = true /\ f = true /\ g = true /\ h = true /\
  i = true.
Proof.
  intros a b c d e f g h i H.
  repeat (apply andb_prop in H; destruct H as [H ?]). repeat split; assumption.
Qed.

Lemma truthy_ge1 : forall ubd dd, truthy ubd = Some dd -> 1 <= dd.
Proof. intros [[|p]|] dd H; cbn in H; inversion H; subst; lia. Qed.

Ltac inv H := inversion H; subst; clear H.

Ltac fixbools :=
  cbn [negb orb andb] in *;
  repeat match goal with
         | H : negb ?x = true |- _ => apply negb_true_iff in H; subst x
         | H : ?x && true = false |- _ => rewrite andb_true_r in H; subst x
         | H : ?x || false = true |- _ => rewrite orb_false_r in H; subst x
         | H : ?x = false |- _ => is_var x; subst x
         | H : ?x = true |- _ => is_var x; subst x
         end.

(* finishing tactic for the leaves: the demand is explicit *)
Ltac simp_leaf :=
  cbn [hr_d hr_nco hd_ann sd_of_hd sd_of_ld hd_max hd_maxm1 hd_var hd_lit eval_sd fst snd
       true_need t_acc t_cont t_stencil t_ghwc access_eqb andb negb orb] in *.

Ltac contra :=
  try match goal with
      | H : false = true |- _ => discriminate H
      | H : true = false |- _ => discriminate H
      end.

Ltac leaf0 Hra Htn :=
  simp_leaf; try (inv Hra); try (inv Htn);
  simp_leaf; fixbools; simp_leaf; contra;
  (split; [ try lia
          | try discriminate; intros Hleaf; fixbools; simp_leaf; contra; auto;
            try (right; left; lia); try (right; right; reflexivity) ]).

Theorem read_access_covers_partial_ : forall cfg a k t h d ann,
  lkind_of (r_ub a) (r_ubd a) = Some k -> compat_r cfg a k t = true -> read_gap a t = false ->
  read_access a = Some h -> true_need k t = Some (d, ann) ->
  forall M e, valid_cfg M e -> meets cfg (hr_need M e h) (eval_sd M e d, ann).
Proof.
  intros cfg a k t h d ann Hk Hc Hgap Hra Htn M e [HM He].
  destruct a as [acc ub ubd disc dofk auw st fine].
  destruct t as [tacc cont tst ghwc].
  unfold compat_r in Hc; cbn [r_acc r_ub r_ubd r_disc r_dofkern r_auw r_stencil r_fine
                              t_acc t_cont t_stencil t_ghwc] in Hc.
  apply and9 in Hc.
  destruct Hc as [Hacc [Hfine [Hst [Hdisc [Hrw [Hauw [Hstc [Hdof Hub]]]]]]]].
  assert (Eacc : acc = tacc) by (destruct acc, tacc; cbn in Hacc; congruence). subst tacc. clear Hacc.
  apply negb_true_iff in Hfine. subst fine.
  unfold read_gap in Hgap; cbn [r_acc r_ub r_auw r_stencil t_cont t_ghwc] in Hgap.
  unfold read_access in Hra; cbn [r_acc r_ub r_ubd r_disc r_dofkern r_auw r_stencil r_fine] in Hra.
  unfold lkind_of in Hk; cbn [r_ub r_ubd] in Hk.
  unfold meets, hr_need.
  (* the stencil descriptions agree *)
  assert (Hstencil : (st = None /\ tst = None) \/
                     (exists n, st = Some (ELit n) /\ tst = Some (ELit n) /\ 1 <= n /\ acc = ARead /\ is_cells k = true) \/
                     (exists v, st = Some (EVar v) /\ tst = Some (EVar v) /\ acc = ARead /\ is_cells k = true)).
  { destruct st as [[n|v]|]; destruct tst as [[m|w]|]; try discriminate.
    - apply andb_prop in Hst. destruct Hst as [H1 H2]. apply N.eqb_eq in H1. apply N.leb_le in H2. subst m.
      apply andb_prop in Hstc. destruct Hstc as [H3 H4]. right. left. exists n.
      repeat split; auto. destruct acc; cbn in H3; congruence.
    - apply N.eqb_eq in Hst. subst w. apply andb_prop in Hstc. destruct Hstc as [H3 H4].
      right. right. exists v. repeat split; auto. destruct acc; cbn in H3; congruence.
    - left. auto. }
  clear Hst Hstc.
  destruct ub; cbn [halo_bound] in Hra; try discriminate; inv Hk; cbn [is_cells negb] in *.
  - (* BNcells *)
    apply Bool.eqb_prop in Hdof. subst dofk.
    destruct Hstencil as [[-> ->] | [[n [-> [-> [Hn [-> _]]]]] | [v [-> [-> [-> _]]]]]].
    + cbn [true_need t_acc t_stencil t_cont t_ghwc] in Htn.
      destruct acc; cbn [access_eqb andb] in *.
      * destruct ghwc; cbn [andb] in Htn; destruct disc; destruct auw; leaf0 Hra Htn.
      * destruct disc; destruct auw; leaf0 Hra Htn.
      * destruct disc; destruct auw; leaf0 Hra Htn.
      * destruct disc; destruct auw; leaf0 Hra Htn.
      * destruct disc; destruct auw; leaf0 Hra Htn.
    + cbn [true_need t_acc t_stencil] in Htn. leaf0 Hra Htn.
    + cbn [true_need t_acc t_stencil] in Htn. specialize (He v). leaf0 Hra Htn.
  - (* BNcolour *)
    apply Bool.eqb_prop in Hdof. subst dofk.
    destruct Hstencil as [[-> ->] | [[n [-> [-> [Hn [-> _]]]]] | [v [-> [-> [-> _]]]]]].
    + cbn [true_need t_acc t_stencil t_cont t_ghwc] in Htn.
      destruct acc; cbn [access_eqb andb orb] in *.
      * destruct ghwc; cbn [andb] in Htn; leaf0 Hra Htn.
      * leaf0 Hra Htn.
      * leaf0 Hra Htn.
      * leaf0 Hra Htn.
      * leaf0 Hra Htn.
    + cbn [true_need t_acc t_stencil] in Htn. leaf0 Hra Htn.
    + cbn [true_need t_acc t_stencil] in Htn. specialize (He v). leaf0 Hra Htn.
  - (* BNdofs *)
    destruct Hstencil as [[-> ->] | [[n [_ [_ [_ [_ Hx]]]]] | [v [_ [_ [_ Hx]]]]]]; try discriminate.
    cbn [true_need] in Htn. destruct acc; leaf0 Hra Htn.
  - (* BNannexed *)
    destruct Hstencil as [[-> ->] | [[n [_ [_ [_ [_ Hx]]]]] | [v [_ [_ [_ Hx]]]]]]; try discriminate.
    cbn [true_need] in Htn. destruct acc; destruct disc; destruct auw; destruct dofk; leaf0 Hra Htn.
  - (* BCellHalo *)
    apply Bool.eqb_prop in Hdof. subst dofk.
    unfold ld_of in Htn. destruct (truthy ubd) as [dd|] eqn:Et.
    + pose proof (truthy_ge1 _ _ Et) as Hdd.
      destruct Hstencil as [[-> ->] | [[n [-> [-> [Hn [-> _]]]]] | [v [-> [-> [-> _]]]]]].
      * cbn [true_need t_acc t_stencil t_cont t_ghwc] in Htn.
        destruct acc; cbn [access_eqb andb negb] in *;
          [ destruct dd as [|p]; [lia|] | | destruct dd as [|p]; [lia|] | | destruct dd as [|p]; [lia|] ];
          leaf0 Hra Htn.
      * cbn [true_need t_acc t_stencil] in Htn. leaf0 Hra Htn.
      * cbn [true_need t_acc t_stencil] in Htn. leaf0 Hra Htn.
    + destruct Hstencil as [[-> ->] | [[n [-> [-> [Hn [-> _]]]]] | [v [-> [-> [-> _]]]]]]; try discriminate.
      cbn [true_need t_acc t_stencil t_cont t_ghwc] in Htn.
      destruct acc; cbn [access_eqb andb negb] in *; leaf0 Hra Htn.
  - (* BColourHalo *)
    apply Bool.eqb_prop in Hdof. subst dofk.
    unfold ld_of in Htn. destruct (truthy ubd) as [dd|] eqn:Et.
    + pose proof (truthy_ge1 _ _ Et) as Hdd.
      destruct Hstencil as [[-> ->] | [[n [-> [-> [Hn [-> _]]]]] | [v [-> [-> [-> _]]]]]].
      * cbn [true_need t_acc t_stencil t_cont t_ghwc] in Htn.
        destruct acc; cbn [access_eqb andb negb] in *;
          [ destruct dd as [|p]; [lia|] | | destruct dd as [|p]; [lia|] | | destruct dd as [|p]; [lia|] ];
          leaf0 Hra Htn.
      * cbn [true_need t_acc t_stencil] in Htn. leaf0 Hra Htn.
      * cbn [true_need t_acc t_stencil] in Htn. leaf0 Hra Htn.
    + destruct Hstencil as [[-> ->] | [[n [-> [-> [Hn [-> _]]]]] | [v [-> [-> [-> _]]]]]]; try discriminate.
      cbn [true_need t_acc t_stencil t_cont t_ghwc] in Htn.
      destruct acc; cbn [access_eqb andb negb] in *; leaf0 Hra Htn.
  - (* BDofHalo *)
    destruct Hstencil as [[-> ->] | [[n [_ [_ [_ [_ Hx]]]]] | [v [_ [_ [_ Hx]]]]]]; try discriminate.
    cbn [true_need] in Htn. unfold ld_of in Htn. destruct (truthy ubd) as [dd|] eqn:Et.
    + pose proof (truthy_ge1 _ _ Et) as Hdd.
      destruct acc; cbn [access_eqb andb negb] in *; leaf0 Hra Htn.
    + destruct acc; cbn [access_eqb andb negb] in *; leaf0 Hra Htn.
Qed.

(* non-vacuity: a GH_READ continuous argument of a GH_INC kernel in the default cell_halo(1) loop *)
Example read_access_covers_nonvacuous :
  let a := {| r_acc := ARead; r_ub := BCellHalo; r_ubd := Some 1; r_disc := false; r_dofkern := false;
              r_auw := false; r_stencil := None; r_fine := false |} in
  let t := {| t_acc := ARead; t_cont := true; t_stencil := None; t_ghwc := false |} in
  lkind_of (r_ub a) (r_ubd a) = Some (KCells (LD 1)) /\ compat_r false a (KCells (LD 1)) t = true /\
  read_gap a t = false /\ (exists h, read_access a = Some h) /\
  true_need (KCells (LD 1)) t = Some (SLit 1, true).
Proof. vm_compute. repeat split; auto. eexists; reflexivity. Qed.

(* The unchanged code in the gap: a kernel that only GH_WRITEs a discontinuous field (all_updates_are_writes)
   reads a continuous field over owned cells: annexed dofs are read, nothing is recorded. *)
Definition gap_reader : rarg :=
  {| r_acc := ARead; r_ub := BNcells; r_ubd := None; r_disc := false; r_dofkern := false;
     r_auw := true; r_stencil := None; r_fine := false |}.
Definition gap_truth : targ := {| t_acc := ARead; t_cont := true; t_stencil := None; t_ghwc := false |}.

Theorem read_access_refuted_ : exists cfg a k t h d ann M e,
  lkind_of (r_ub a) (r_ubd a) = Some k /\ compat_r cfg a k t = true /\
  read_access a = Some h /\ true_need k t = Some (d, ann) /\ valid_cfg M e /\
  ~ meets cfg (hr_need M e h) (eval_sd M e d, ann).
Proof.
  exists false, gap_reader, (KCells (LD 0)), gap_truth.
  eexists. exists (SLit 0), true, 1, (fun _ => 1).
  split; [reflexivity|]. split; [vm_compute; reflexivity|]. split; [vm_compute; reflexivity|].
  split; [vm_compute; reflexivity|]. split; [split; [lia | intros; lia]|].
  unfold meets. vm_compute. intros [_ H]. destruct (H eq_refl) as [H1 | [H1 | H1]]; try discriminate.
  apply H1. reflexivity.
Qed.

(* LFRicLoop._halo_read_access decides whether create_halo_exchanges considers the field at all *)
Definition larg_of (a : rarg) : larg :=
  {| l_acc := r_acc a; l_stencil := (match r_stencil a with Some _ => true | None => false end);
     l_ub := r_ub a; l_disc := r_disc a; l_cellcol := negb (r_dofkern a); l_auw := r_auw a |}.

Ltac leaf1 Hh Htn :=
  simp_leaf; cbn [halo_read_access larg_of l_acc l_stencil l_ub l_disc l_cellcol l_auw halo_bound
                  r_acc r_ub r_ubd r_disc r_dofkern r_auw r_stencil] in *;
  try discriminate; try (inv Htn);
  simp_leaf; fixbools; simp_leaf; contra; try discriminate;
  (split; [ try reflexivity; try lia
          | try discriminate; intros Hleaf; fixbools; simp_leaf; contra; auto ]).

Theorem halo_read_false_sound_ : forall cfg a k t d ann,
  lkind_of (r_ub a) (r_ubd a) = Some k -> compat_r cfg a k t = true -> read_gap a t = false ->
  halo_read_access cfg (larg_of a) = Some false -> true_need k t = Some (d, ann) ->
  forall M e, eval_sd M e d = 0 /\ (ann = true -> cfg = true).
Proof.
  intros cfg a k t d ann Hk Hc Hgap Hh Htn M e.
  destruct a as [acc ub ubd disc dofk auw st fine].
  destruct t as [tacc cont tst ghwc].
  unfold compat_r in Hc; cbn [r_acc r_ub r_ubd r_disc r_dofkern r_auw r_stencil r_fine
                              t_acc t_cont t_stencil t_ghwc] in Hc.
  apply and9 in Hc.
  destruct Hc as [Hacc [Hfine [Hst [Hdisc [Hrw [Hauw [Hstc [Hdof Hub]]]]]]]].
  assert (Eacc : acc = tacc) by (destruct acc, tacc; cbn in Hacc; congruence). subst tacc. clear Hacc.
  unfold read_gap in Hgap; cbn [r_acc r_ub r_auw r_stencil t_cont t_ghwc] in Hgap.
  unfold lkind_of in Hk; cbn [r_ub r_ubd] in Hk.
  assert (Hst2 : (st = None /\ tst = None) \/ (exists x, st = Some x)).
  { destruct st; [right; eexists; reflexivity|]. destruct tst; [discriminate|]. left; auto. }
  destruct Hst2 as [[-> ->] | [x ->]].
  - destruct ub; try discriminate; inv Hk; cbn [is_cells negb] in *;
      destruct acc; destruct disc; destruct auw; destruct dofk; destruct ghwc; try (destruct cfg);
        leaf1 Hh Htn.
  - (* a stencil access is always considered (or refused) *)
    cbn [halo_read_access larg_of l_acc l_stencil l_ub r_acc r_stencil r_ub] in Hh.
    apply andb_prop in Hstc. destruct Hstc as [H3 _]. destruct acc; cbn in H3; try discriminate.
    destruct ub; discriminate.
Qed.

(* ---- the writer side *)
Definition compat_w (cfg : bool) (w : warg) (k : lkind) (t : targ) : bool :=
  negb (w_fine w)
  && (negb (w_disc w) || negb (t_cont t))
  && Bool.eqb (w_cellcol w) (is_cells k)
  && (match t_acc t with ARead => false | AReadWrite => w_disc w || negb (w_cellcol w) | _ => true end)
  (* under COMPUTE_ANNEXED_DOFS no loop writes a continuous field on owned dofs / owned cells only with
     an increment (LFRicLoop.load: nannexed for built-ins, cell_halo(1) for increments) *)
  && (negb cfg || negb (t_cont t) ||
      match k, t_acc t with
      | KDofsOwned, _ => false
      | KCells (LD 0), (AInc | AReadInc) => false
      | _, _ => true
      end).

Lemma and5 : forall a b c d e : bool, a && b && c && d && e = true ->
  a = true /\ b = true /\ c = true /\ d = true /\ e = true.
Proof. intros a b c d e H. repeat (apply andb_prop in H; destruct H as [H ?]). repeat split; assumption. Qed.

(* what HaloWriteAccess claims (used by [required]) is no cleaner than what the loop really leaves *)
Theorem write_belief_sound_ : forall cfg w k t,
  lkind_of (w_ub w) (w_ubd w) = Some k -> compat_w cfg w k t = true ->
  forall M e, valid_cfg M e -> eval_sd M e (fst (true_after k t)) <= M ->
  sat (eval_sd M e (fst (true_after k t)), snd (true_after k t) || (1 <=? eval_sd M e (fst (true_after k t))))
      (after_write cfg M (write_access w)).
Proof.
  intros cfg w k t Hk Hc M e [HM He] HleM.
  destruct w as [disc cellcol ub ubd fine]. destruct t as [acc cont tst ghwc].
  unfold compat_w in Hc; cbn [w_disc w_cellcol w_ub w_ubd w_fine t_acc t_cont] in Hc.
  apply and5 in Hc. destruct Hc as [Hfine [Hdisc [Hcc [Hacc Hcfg]]]].
  apply negb_true_iff in Hfine. subst fine. apply Bool.eqb_prop in Hcc. subst cellcol.
  unfold lkind_of in Hk; cbn [w_ub w_ubd] in Hk.
  unfold sat, after_write, write_access;
    cbn [w_disc w_cellcol w_ub w_ubd w_fine hw_max hw_lit hw_dirty_outer fst snd].
  destruct ub; try discriminate; inv Hk; cbn [halo_bound is_cells true_after t_acc t_cont andb negb fst snd] in *.
  - (* BNcells *)
    destruct acc; try discriminate; destruct disc; destruct cont; destruct cfg;
      cbn [negb orb andb sd_of_ld eval_sd fst snd] in *; try discriminate; split; try lia; auto.
  - (* BNcolour *)
    destruct acc; try discriminate; destruct disc; destruct cont; destruct cfg;
      cbn [negb orb andb sd_of_ld eval_sd fst snd] in *; try discriminate; split; try lia; auto.
  - (* BNdofs *)
    destruct acc; try discriminate; destruct disc; destruct cont; destruct cfg;
      cbn [negb orb andb sd_of_ld eval_sd fst snd] in *; try discriminate; split; try lia; auto.
  - (* BNannexed *)
    destruct acc; try discriminate; destruct disc; destruct cont; destruct cfg;
      cbn [negb orb andb sd_of_ld eval_sd fst snd] in *; try discriminate; split; try lia; auto.
  - (* BCellHalo *)
    unfold ld_of in *. destruct (truthy ubd) as [dd|] eqn:Et.
    + pose proof (truthy_ge1 _ _ Et) as Hdd.
      destruct dd as [|p]; [lia|].
      destruct acc; try discriminate; destruct disc; destruct cont;
        cbn [negb orb andb sd_of_ld eval_sd fst snd] in *; try discriminate;
        (split; [ lia | intros _; first [ reflexivity | apply orb_true_iff; right; apply N.leb_le; lia ] ]).
    + destruct acc; try discriminate; destruct disc; destruct cont;
        cbn [negb orb andb sd_of_ld eval_sd fst snd] in *; try discriminate;
        (split; [ lia | intros _; first [ reflexivity | apply orb_true_iff; right; apply N.leb_le; lia ] ]).
  - (* BColourHalo *)
    unfold ld_of in *. destruct (truthy ubd) as [dd|] eqn:Et.
    + pose proof (truthy_ge1 _ _ Et) as Hdd.
      destruct dd as [|p]; [lia|].
      destruct acc; try discriminate; destruct disc; destruct cont;
        cbn [negb orb andb sd_of_ld eval_sd fst snd] in *; try discriminate;
        (split; [ lia | intros _; first [ reflexivity | apply orb_true_iff; right; apply N.leb_le; lia ] ]).
    + destruct acc; try discriminate; destruct disc; destruct cont;
        cbn [negb orb andb sd_of_ld eval_sd fst snd] in *; try discriminate;
        (split; [ lia | intros _; first [ reflexivity | apply orb_true_iff; right; apply N.leb_le; lia ] ]).
  - (* BDofHalo *)
    unfold ld_of in *. destruct (truthy ubd) as [dd|] eqn:Et.
    + pose proof (truthy_ge1 _ _ Et) as Hdd.
      destruct acc; try discriminate; destruct disc; destruct cont;
        cbn [negb orb andb sd_of_ld eval_sd fst snd] in *; try discriminate;
        (split; [ lia | intros _; first [ reflexivity | apply orb_true_iff; right; apply N.leb_le; lia ] ]).
    + destruct acc; try discriminate; destruct disc; destruct cont;
        cbn [negb orb andb sd_of_ld eval_sd fst snd] in *; try discriminate;
        (split; [ lia | intros _; first [ reflexivity | apply orb_true_iff; right; apply N.leb_le; lia ] ]).
Qed.

(* the recorded state after the set_dirty/set_clean calls generated for a written field is no cleaner than
   what the loop computed: r' = max (if set_dirty then 0 else r) clean <= a'  (r <= M always) *)
Theorem marks_no_cleaner_ : forall cfg w k t,
  lkind_of (w_ub w) (w_ubd w) = Some k -> compat_w cfg w k t = true ->
  forall M e r, valid_cfg M e -> r <= M -> eval_sd M e (fst (true_after k t)) <= M ->
  let mk := marks (write_access w) in
  N.max (if fst mk then 0 else r) (match snd mk with Some d => eval_sd M e d | None => 0 end)
    <= eval_sd M e (fst (true_after k t)).
Proof.
  intros cfg w k t Hk Hc M e r [HM He] Hr HleM.
  destruct w as [disc cellcol ub ubd fine]. destruct t as [acc cont tst ghwc].
  unfold compat_w in Hc; cbn [w_disc w_cellcol w_ub w_ubd w_fine t_acc t_cont] in Hc.
  apply and5 in Hc. destruct Hc as [Hfine [Hdisc [Hcc [Hacc Hcfg]]]].
  apply negb_true_iff in Hfine. subst fine. apply Bool.eqb_prop in Hcc. subst cellcol.
  unfold lkind_of in Hk; cbn [w_ub w_ubd] in Hk.
  unfold marks, write_access; cbn [w_disc w_cellcol w_ub w_ubd w_fine hw_max hw_lit hw_dirty_outer fst snd].
  destruct ub; try discriminate; inv Hk; cbn [halo_bound is_cells true_after t_acc t_cont andb negb fst snd] in *.
  1-4: destruct acc; try discriminate; destruct disc; destruct cont;
       cbn [negb orb andb sd_of_ld eval_sd fst snd N.eqb] in *; try discriminate; lia.
  all: unfold ld_of in *; destruct (truthy ubd) as [dd|] eqn:Et;
    [ pose proof (truthy_ge1 _ _ Et) as Hdd; destruct dd as [|p]; [lia|] | ];
    destruct acc; try discriminate; destruct disc; destruct cont;
    cbn [negb orb andb sd_of_ld eval_sd fst snd N.eqb] in *; try discriminate;
    repeat match goal with
           | |- context [0 <? ?x] => let E := fresh "E" in destruct (0 <? x) eqn:E;
                                     [apply N.ltb_lt in E | apply N.ltb_ge in E]
           end; cbn [eval_sd fst snd] in *; lia.
Qed.

(* With the repair of props/C22/fix.patch (the GH_WRITE special case only applies when the loop's
   iteration-space field is not discontinuous) the condition PSyclone evaluates coincides with the ground
   truth's kernel kind, the gap is empty and both statements hold at full strength. *)
Lemma read_gap_closed : forall a t, r_auw a = t_ghwc t -> read_gap a t = false.
Proof.
  intros a t H. unfold read_gap. rewrite H. destruct (access_eqb (r_acc a) ARead); cbn [andb]; auto.
  destruct (t_ghwc t); cbn [andb negb]; auto.
Qed.

Theorem read_access_covers_fixed_ : forall cfg a k t h d ann,
  lkind_of (r_ub a) (r_ubd a) = Some k -> compat_r cfg a k t = true -> r_auw a = t_ghwc t ->
  read_access a = Some h -> true_need k t = Some (d, ann) ->
  forall M e, valid_cfg M e -> meets cfg (hr_need M e h) (eval_sd M e d, ann).
Proof.
  intros cfg a k t h d ann Hk Hc Hfix. apply (read_access_covers_partial_ cfg a k t h d ann Hk Hc).
  apply read_gap_closed. exact Hfix.
Qed.

Theorem halo_read_false_sound_fixed_ : forall cfg a k t d ann,
  lkind_of (r_ub a) (r_ubd a) = Some k -> compat_r cfg a k t = true -> r_auw a = t_ghwc t ->
  halo_read_access cfg (larg_of a) = Some false -> true_need k t = Some (d, ann) ->
  forall M e, eval_sd M e d = 0 /\ (ann = true -> cfg = true).
Proof.
  intros cfg a k t d ann Hk Hc Hfix. apply (halo_read_false_sound_ cfg a k t d ann Hk Hc).
  apply read_gap_closed. exact Hfix.
Qed.
