#!/usr/bin/env python3
"""tools/keep_seed.py <ID> <name> <detected: yes|no|partial> <note>  -- store a confirmed seeded change under seeded/<name>/"""
import json, shutil, sys
from pathlib import Path
pid, name, det, note = sys.argv[1:5]
import os
src = Path(os.environ.get("SEEDOUT", "/var/tmp/seedout-%s" % pid))
dst = Path("/verif/seeded") / name
dst.mkdir(parents=True, exist_ok=True)
for f in ("patch.diff", "demo.py"):
    shutil.copy(src / f, dst / f)
meta = json.loads((src / "meta.json").read_text())
meta["property"] = pid
meta["confirmed_by_coordinator"] = ("tools/try_seed.sh %s: demo.py exits 0 on the unchanged tree and 1 with patch.diff applied "
                                    "(scratch worktree of /repo HEAD); then VERIF_REPO=<worktree> ./check %s --tier quick" % (pid, pid))
meta["detected_by_check"] = det
meta["check_result"] = note
(dst / "meta.json").write_text(json.dumps(meta, indent=1) + "\n")
print("kept", dst)
