#!/bin/sh
# usage: tools/try_seed.sh <ID> [tier]  -- confirm a seeded change (/var/tmp/seedout-<ID>) and run ./check <ID> against it
ID="$1"; TIER="${2:-quick}"; OUT=${SEEDOUT:-/var/tmp/seedout-$ID}; WT=/var/tmp/seedtest-$ID
[ -f "$OUT/patch.diff" ] || { echo "no patch"; exit 2; }
git -C /repo worktree remove --force "$WT" 2>/dev/null
git -C /repo worktree add --detach "$WT" HEAD >/dev/null 2>&1 || exit 2
run_demo() { (cd "$WT" && PYTHONPATH="$WT/src" PSYCLONE_CONFIG="$WT/config/psyclone.cfg" PYTHONDONTWRITEBYTECODE=1 PYTHONHASHSEED=0 timeout 900 /venv/bin/python "$OUT/demo.py" >/var/tmp/seedtest-$ID.demo.log 2>&1; echo $?); }
echo "demo on unchanged tree: exit $(run_demo)"
git -C "$WT" apply "$OUT/patch.diff" || { echo "patch does not apply"; git -C /repo worktree remove --force "$WT"; exit 2; }
echo "demo with change:        exit $(run_demo)"; tail -3 /var/tmp/seedtest-$ID.demo.log
cp /verif/evidence/$ID.json /var/tmp/seedtest-$ID.evidence.bak 2>/dev/null
cd /verif && VERIF_REPO="$WT" timeout 3000 ./check "$ID" --tier "$TIER" 2>&1 | grep -E "VIOLATION|KNOWN-FINDING|done tier" | cut -c1-260
for f in $(ls -t /verif/replays/$ID-*.json 2>/dev/null | head -2); do echo "--- $f"; head -c 1500 "$f"; echo; done
cp /verif/evidence/$ID.json /var/tmp/seedtest-$ID.evidence.seeded 2>/dev/null; mv /var/tmp/seedtest-$ID.evidence.bak /verif/evidence/$ID.json 2>/dev/null
git -C /repo worktree remove --force "$WT"; rm -f /var/tmp/seedtest-$ID.demo.log /var/tmp/seedtest-$ID.evidence.seeded
