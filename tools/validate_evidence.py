#!/venv/bin/python
"""validate evidence/<ID>.json against /root/.vp/EVIDENCE.schema.json"""
import json, sys
from pathlib import Path
import jsonschema
V = Path(__file__).resolve().parent.parent
evs = json.loads(Path("/root/.vp/EVIDENCE.schema.json").read_text())
rc = 0
for pid in sys.argv[1:]:
    f = V / "evidence" / (pid + ".json")
    try:
        ev = json.loads(f.read_text())
        jsonschema.validate(ev, evs)
        c = ev["coverage"]
        assert ev["level"] == "proof" and c["obligations"] >= 1 and c["discharged"] == c["obligations"], "obligations/discharged"
        assert c["evaluations"] >= 1 and c["distinct_nontrivial"] >= 2 and c["samples"], "coverage counts"
        print(pid, "evidence OK")
    except Exception as e:
        rc = 1
        print(pid, "INVALID:", str(e)[:400])
sys.exit(rc)
