#!/bin/sh
# usage: tools/run_baseline.sh [tree=/repo]   -- runs PSyclone's test-suite (guard OFF) and lists failures
# other than the baseline's always_fail test.  Exit 0 iff no unexpected failure.
TREE="${1:-/repo}"
cd "$TREE" || exit 2
OUT=$(env -u SVALAT_PSYCLONE_VERIF PYTHONDONTWRITEBYTECODE=1 PYTHONPATH="$TREE/src" /venv/bin/python -m pytest -q -p no:cacheprovider --timeout=900 -n 8 src/psyclone/tests 2>&1 | tail -40)
echo "$OUT" | tail -15
echo "$OUT" | grep -E "^(FAILED|ERROR)" | grep -v "generator_test.py::test_main_kern_output_no_write" > /dev/null && { echo "UNEXPECTED FAILURES"; exit 1; }
echo "baseline OK (only the always_fail test fails)"; exit 0
