"""Seeded generator of MiniFortran programs (tuples of vlib.minifort) that are valid Fortran:
integer scalars, 1-D/2-D integer arrays with arbitrary (also negative) lower bounds, nested DO
loops (literal / variable bounds, positive and negative steps, zero-trip), IF, EXIT/CYCLE, affine
subscripts kept in bounds by construction.  Used to validate the glue (interpreter vs Coq `exec`
vs gfortran) and as a base for the per-property generators."""
from vlib import minifort as mf

SCALARS = ["n", "m", "s", "t"]
LOOPVARS = ["i", "j", "k"]


class Gen:
    def __init__(self, rng, arrays=None, max_depth=2, allow_exit=True, two_d=True):
        self.r = rng
        # arrays: name -> list of (lb, ub)
        if arrays is None:
            arrays = {}
            for a in ["a", "b", "c"]:
                lb = rng.choice([1, 1, 0, -2, 3])
                arrays[a] = [(lb, lb + rng.choice([5, 6, 8]))]
            if two_d:
                lb1, lb2 = rng.choice([1, 0, -1]), rng.choice([1, 2])
                arrays["d"] = [(lb1, lb1 + 4), (lb2, lb2 + 4)]
        self.arrays = arrays
        self.max_depth = max_depth
        self.allow_exit = allow_exit

    # ---- declarations / initial store
    def decls(self):
        d = [(v, "integer", []) for v in LOOPVARS + SCALARS]
        d += [(a, "integer", bs) for a, bs in sorted(self.arrays.items())]
        return d

    def store(self):
        r = self.r
        vals = {}
        for v in SCALARS:
            vals[(v, ())] = r.randint(-3, 6)
        vals[("n", ())] = r.choice([0, 1, 2, 3, 4])
        for a, bs in self.arrays.items():
            if len(bs) == 1:
                for i in range(bs[0][0], bs[0][1] + 1):
                    vals[(a, (i,))] = r.randint(-4, 9)
            else:
                for i in range(bs[0][0], bs[0][1] + 1):
                    for j in range(bs[1][0], bs[1][1] + 1):
                        vals[(a, (i, j))] = r.randint(-4, 9)
        return vals, dict(self.arrays)

    # ---- expressions
    def subscript(self, env, lb, ub):
        """an index expression guaranteed within [lb, ub] given loop-variable ranges env: var -> (lo, hi)."""
        r = self.r
        cands = []
        for v, (lo, hi) in env.items():
            for d in (0, 0, 1, -1, 2):
                if lo + d >= lb and hi + d <= ub:
                    e = ("var", v) if d == 0 else ("bin", "Add" if d > 0 else "Sub", ("var", v), ("lit", abs(d)))
                    cands.append(e)
        if cands and r.random() < 0.8:
            return r.choice(cands)
        return ("lit", r.randint(lb, ub))

    def ref(self, env):
        r = self.r
        a = r.choice(sorted(self.arrays))
        return ("idx", a, [self.subscript(env, lb, ub) for lb, ub in self.arrays[a]])

    def expr(self, env, depth=0):
        r = self.r
        c = r.random()
        if depth >= 2 or c < 0.25:
            c2 = r.random()
            if c2 < 0.3:
                return ("lit", r.randint(-3, 5))
            if c2 < 0.55:
                return ("var", r.choice(SCALARS + list(env)))
            return self.ref(env)
        if c < 0.75:
            return ("bin", r.choice(["Add", "Sub", "Mul", "Add"]), self.expr(env, depth + 1), self.expr(env, depth + 1))
        if c < 0.8:
            return ("un", "Neg", self.expr(env, depth + 1))
        if c < 0.9:
            return ("intr", r.choice(["IMin", "IMax"]), [self.expr(env, depth + 1), self.expr(env, depth + 1)])
        if c < 0.95:
            return ("intr", "IAbs", [self.expr(env, depth + 1)])
        return ("intr", "IMod", [self.expr(env, depth + 1), ("lit", r.choice([2, 3, -2]))])

    def cond(self, env):
        r = self.r
        return ("bin", r.choice(["Lt", "Le", "Gt", "Ge", "Eq", "Ne"]), self.expr(env, 1), self.expr(env, 1))

    # ---- statements
    def assign(self, env):
        r = self.r
        if r.random() < 0.7:
            t = self.ref(env)
            return ("assign", t[1], t[2], self.expr(env))
        return ("assign", r.choice(["s", "t", "m"]), [], self.expr(env))

    def loop(self, env, depth, in_loop):
        r = self.r
        free = [v for v in LOOPVARS if v not in env]
        v = free[0]
        lo, hi = r.choice([(1, 4), (2, 5), (1, 3), (0, 3), (3, 2), (2, 2)])
        st = r.choice([1, 1, 1, 2, -1, -2])
        if st < 0:
            bounds = (("lit", hi), ("lit", lo))
        else:
            bounds = (("lit", lo), ("lit", hi))
        rng_lo, rng_hi = min(lo, hi), max(lo, hi)
        if r.random() < 0.25 and st > 0:
            # variable upper bound n in 0..4, lower bound 1
            bounds = (("lit", 1), ("var", "n"))
            rng_lo, rng_hi = 1, 4
        env2 = dict(env)
        env2[v] = (rng_lo, rng_hi)
        body = self.block(env2, depth + 1, True, r.randint(1, 3))
        return ("do", v, bounds[0], bounds[1], ("lit", st), body)

    def stmt(self, env, depth, in_loop):
        r = self.r
        c = r.random()
        if c < 0.55:
            return self.assign(env)
        if c < 0.75 and depth < self.max_depth and len(env) < len(LOOPVARS):
            return self.loop(env, depth, in_loop)
        if c < 0.93:
            th = self.block(env, depth + 1, in_loop, r.randint(1, 2))
            el = self.block(env, depth + 1, in_loop, r.randint(0, 1))
            if in_loop and self.allow_exit and r.random() < 0.3:
                th = th + [(r.choice(["exit", "cycle"]),)]
            return ("if", self.cond(env), th, el)
        return self.assign(env)

    def block(self, env, depth, in_loop, n):
        return [self.stmt(env, depth, in_loop) for _ in range(n)]

    def program(self, n=None):
        n = n or self.r.randint(2, 5)
        return self.block({}, 0, False, n)


def print_all_fortran(decls):
    """Fortran statements printing every variable (used for gfortran differential runs)."""
    out = []
    for v, ty, bs in decls:
        out.append("  print *, %s" % v)
    return out


def fortran_program(name, stmts, decls, vals):
    """Complete program text: declarations, initialisation from vals, body, print of all variables."""
    lines = ["program %s" % name, "  implicit none"]
    for v, ty, bs in decls:
        if bs:
            lines.append("  %s, dimension(%s) :: %s" % (ty, ", ".join("%d:%d" % b for b in bs), v))
        else:
            lines.append("  %s :: %s" % (ty, v))
    for v, ty, bs in decls:
        if not bs:
            lines.append("  %s = %d" % (v, vals.get((v, ()), 0)))
        elif len(bs) == 1:
            for i in range(bs[0][0], bs[0][1] + 1):
                lines.append("  %s(%d) = %d" % (v, i, vals.get((v, (i,)), 0)))
        else:
            for i in range(bs[0][0], bs[0][1] + 1):
                for j in range(bs[1][0], bs[1][1] + 1):
                    lines.append("  %s(%d,%d) = %d" % (v, i, j, vals.get((v, (i, j)), 0)))
    lines += mf.stmts_to_fortran(stmts)
    lines += print_all_fortran(decls)
    lines.append("end program %s" % name)
    return "\n".join(lines) + "\n"


def expected_stdout(decls, store):
    """what the program above prints, as a flat list of ints, given the final Store."""
    out = []
    for v, ty, bs in decls:
        if not bs:
            out.append(store.get((v, ())))
        elif len(bs) == 1:
            out += [store.get((v, (i,))) for i in range(bs[0][0], bs[0][1] + 1)]
        else:   # Fortran prints column-major
            for j in range(bs[1][0], bs[1][1] + 1):
                for i in range(bs[0][0], bs[0][1] + 1):
                    out.append(store.get((v, (i, j))))
    return out
