"""Shared machinery of the /verif checks (see DESIGN.md section 1).

A property check is a module props/<ID>/check.py exposing ``run(ctx)``.  ``ctx`` (class Ctx)
offers: seeded RNGs, the Coq build (under a file lock and shell timeouts), parsing of
``Print Assumptions`` output of Properties/<ID>.v, evaluation of generated ``cases.v`` files by
``coqc``/``vm_compute``, known-finding handling, VIOLATION reporting and the evidence writer.
"""
import fcntl
import glob
import hashlib
import json
import os
import random
import re
import shutil
import subprocess
import sys
import time
from pathlib import Path

VERIF = Path(__file__).resolve().parent.parent
REPO = Path(os.environ.get("VERIF_REPO", "/repo"))
COQ = VERIF / "coq"
LOGICAL = "PV"          # -Q . PV
NCPU = os.cpu_count() or 4

ALLOWED_AXIOMS = {
    # standard-library axioms that may appear; each is named in the evidence when it does.
    "functional_extensionality_dep", "FunctionalExtensionality.functional_extensionality_dep",
    "Eqdep.Eq_rect_eq.eq_rect_eq", "eq_rect_eq", "Classical_Prop.classic", "classic",
    "ProofIrrelevance.proof_irrelevance", "proof_irrelevance", "JMeq.JMeq_eq", "JMeq_eq",
    "propositional_extensionality", "PropExtensionality.propositional_extensionality",
}
FORBIDDEN = re.compile(
    r"\b(Axiom|Axioms|Parameter|Parameters|Conjecture|Conjectures|Admitted|admit|give_up|"
    r"Admit Obligations)\b|Unset\s+Guard|bypass_check|type-in-type|impredicative-set|"
    r"Unset\s+Universe\s+Checking|Unset\s+Positivity|Local\s+Unset\s+Guard|native_compute")
THM_RE = re.compile(r"^\s*(?:Theorem|Lemma|Corollary|Example|Fact|Proposition)\s+([A-Za-z0-9_']+)", re.M)
PA_RE = re.compile(r"^\s*Print\s+Assumptions\s+([A-Za-z0-9_'.]+)\s*\.", re.M)


def sh(cmd, timeout=600, cwd=None, env=None, input=None):
    """Run a command, return (rc, stdout+stderr).  rc=124 on timeout."""
    try:
        p = subprocess.run(cmd, cwd=cwd, env=env, input=input, text=True, timeout=timeout,
                           stdout=subprocess.PIPE, stderr=subprocess.STDOUT,
                           shell=isinstance(cmd, str))
        return p.returncode, p.stdout
    except subprocess.TimeoutExpired as e:
        out = e.stdout or ""
        if isinstance(out, bytes):
            out = out.decode("utf-8", "replace")
        return 124, out + "\n[timeout after %ss]" % timeout


def strip_comments(src):
    """Remove (possibly nested) Coq comments."""
    out, depth, i = [], 0, 0
    while i < len(src):
        if src.startswith("(*", i):
            depth += 1
            i += 2
        elif src.startswith("*)", i) and depth:
            depth -= 1
            i += 2
        else:
            if not depth:
                out.append(src[i])
            i += 1
    return "".join(out)


class BuildLock:
    def __enter__(self):
        self.f = open(COQ / ".build.lock", "w")
        fcntl.flock(self.f, fcntl.LOCK_EX)
        return self

    def __exit__(self, *a):
        fcntl.flock(self.f, fcntl.LOCK_UN)
        self.f.close()


def coq_sources():
    return sorted(str(p.relative_to(COQ)) for p in COQ.rglob("*.v")
                  if ".scratch" not in p.parts and "Extract/out" not in str(p))


def refresh_makefile():
    """(Re)generate _CoqProject and Makefile when the set of .v files changed.  Lock held."""
    srcs = coq_sources()
    text = "-Q . %s\n-arg -w -arg -notation-overridden,-deprecated-hint-without-locality," \
           "-deprecated-instance-without-locality,-deprecated,-ambiguous-paths\n" % LOGICAL
    text += "\n".join(srcs) + "\n"
    proj = COQ / "_CoqProject"
    if not proj.exists() or proj.read_text() != text or not (COQ / "Makefile").exists():
        proj.write_text(text)
        rc, out = sh(["coq_makefile", "-f", "_CoqProject", "-o", "Makefile"], cwd=COQ, timeout=120)
        if rc != 0:
            raise RuntimeError("coq_makefile failed:\n" + out)
        d = COQ / ".Makefile.d"
        if d.exists():
            d.unlink()


def scan_forbidden(files=None):
    """Return list of (file, line, text) for forbidden tokens / top-level Variable/Hypothesis."""
    bad = []
    for rel in (files or coq_sources()):
        src = strip_comments((COQ / rel).read_text())
        depth = 0
        for n, line in enumerate(src.split("\n"), 1):
            if FORBIDDEN.search(line):
                bad.append((rel, n, line.strip()))
            if re.match(r"\s*Section\s", line):
                depth += 1
            if re.match(r"\s*End\s", line) and depth:
                depth -= 1   # (also closes Modules; those are not used with Variables here)
            if depth == 0 and re.match(r"\s*(Variable|Variables|Hypothesis|Hypotheses|Context)\b", line):
                bad.append((rel, n, line.strip()))
    return bad


def write_if_changed(path, text):
    path = Path(path)
    if path.exists() and path.read_text() == text:
        return False
    path.parent.mkdir(parents=True, exist_ok=True)
    path.write_text(text)
    return True


def coq_str(s):
    """Python str -> Coq string literal (ASCII only; non-ASCII replaced by '?')."""
    s = "".join(c if 32 <= ord(c) < 127 else ("\n" if c == "\n" else "?") for c in s)
    return '"' + s.replace('"', '""') + '"'


def coq_list(items):
    return "[" + "; ".join(items) + "]"


def coq_z(n):
    return "(%d)%%Z" % n


class Violation(Exception):
    pass


class Ctx:
    def __init__(self, prop, tier="quick", seed=0):
        self.prop = prop
        self.tier = tier
        self.seed = seed
        self.t0 = time.time()
        self.scratch = VERIF / ".scratch" / ("%s-%d" % (prop, os.getpid()))
        self.scratch.mkdir(parents=True, exist_ok=True)
        self.cov = {"evaluations": 0, "distinct_nontrivial": 0, "rule": "", "samples": [],
                    "obligations": 0, "discharged": 0, "checker_cmd": "", "trusted_base": [],
                    "disagreements_checked": 0}
        self.assumptions = []
        self.violations = []       # list of (replay_path, no_input)
        self.known_printed = []
        self.notes = {}
        self._kf = None
        self._distinct = set()

    # ------------------------------------------------------------------ misc
    @property
    def thorough(self):
        return self.tier == "thorough"

    def pick(self, quick, thorough):
        return thorough if self.thorough else quick

    def rng(self, tag=""):
        return random.Random("%d:%s:%s" % (self.seed, self.prop, tag))

    def log(self, *a):
        print("[%s %6.1fs]" % (self.prop, time.time() - self.t0), *a, flush=True)

    def count(self, key_obj, nontrivial=True):
        """Count one evaluated case; distinct_nontrivial counts distinct canonical keys."""
        self.cov["evaluations"] += 1
        if nontrivial:
            h = hashlib.sha1(repr(key_obj).encode()).hexdigest()
            if h not in self._distinct:
                self._distinct.add(h)
                self.cov["distinct_nontrivial"] += 1

    def sample(self, obj, limit=6):
        if len(self.cov["samples"]) < limit:
            self.cov["samples"].append(obj)

    def hist(self, name, key, n=1):
        h = self.cov.setdefault("distribution", {}).setdefault(name, {})
        h[str(key)] = h.get(str(key), 0) + n

    # ------------------------------------------------------------- coq build
    def coq_make(self, targets, timeout=1800):
        """make the given .vo targets (paths relative to coq/)."""
        with BuildLock():
            refresh_makefile()
            rc, out = sh(["make", "-j%s" % os.environ.get("VERIF_JOBS", "4"), "-k"] + list(targets), cwd=COQ, timeout=timeout)
        return rc == 0, out

    def coqc_file(self, path, timeout=900, cwd=None):
        """coqc a single file with the project's load path; returns (ok, stdout)."""
        rc, out = sh(["coqc", "-Q", str(COQ), LOGICAL, "-w",
                      "-notation-overridden,-deprecated,-ambiguous-paths", str(path)],
                     timeout=timeout, cwd=cwd or self.scratch)
        return rc == 0, out

    def prove(self, deps=None, timeout=1800):
        """Build the dependency closure of Properties/<prop>.v, then compile that file itself
        capturing the Print Assumptions output.  Fills obligations/discharged.  Returns
        (ok, report) where report lists per theorem its assumptions or the build failure."""
        prop_v = COQ / "Properties" / (self.prop + ".v")
        src = strip_comments(prop_v.read_text())
        thms = THM_RE.findall(src)
        printed = [p.split(".")[-1] for p in PA_RE.findall(src)]
        report = {"theorems": thms, "assumptions": {}, "errors": []}
        self.cov["obligations"] = len(thms)
        self.cov["checker_cmd"] = ("make -C coq Properties/%s.vo (coqc 8.16.1, full .vo build) + "
                                   "coqc Properties/%s.v with Print Assumptions under every theorem"
                                   % (self.prop, self.prop))
        missing = [t for t in thms if t not in printed]
        if missing:
            report["errors"].append("no Print Assumptions for: " + ", ".join(missing))
        ok, out = self.coq_make(["Properties/%s.vo" % self.prop], timeout=timeout)
        bad = scan_forbidden(self.closure())
        if bad:
            report["errors"].append("forbidden tokens: " + "; ".join("%s:%d %s" % b for b in bad[:10]))
        if not ok:
            report["errors"].append("coq build failed")
            report["build_log_tail"] = out[-6000:]
            m = re.search(r'File "([^"]+)", line (\d+)', out)
            if m:
                report["failed_at"] = "%s:%s" % (m.group(1), m.group(2))
            self.cov["discharged"] = 0
            self.proof_report = report
            return False, report
        # re-compile the property file alone to capture Print Assumptions output
        tmp = self.scratch / "pa"
        tmp.mkdir(exist_ok=True)
        shutil.copy(prop_v, tmp / (self.prop + "_pa.v"))
        okc, out = self.coqc_file(tmp / (self.prop + "_pa.v"), timeout=timeout)
        if not okc:
            report["errors"].append("coqc of property file failed")
            report["build_log_tail"] = out[-6000:]
            self.cov["discharged"] = 0
            self.proof_report = report
            return False, report
        blocks = self._parse_assumptions(out)
        if len(blocks) != len(printed):
            report["errors"].append("could not match Print Assumptions output (%d blocks, %d commands)"
                                    % (len(blocks), len(printed)))
        discharged = 0
        used_axioms = set()
        for name, blk in zip(printed, blocks):
            report["assumptions"][name] = blk
            axs = [a for a in blk if a != "Closed under the global context"]
            notallowed = [a for a in axs if a.split(".")[-1] not in
                          {x.split(".")[-1] for x in ALLOWED_AXIOMS} and not a.startswith("SECTIONVAR ")]
            if notallowed:
                report["errors"].append("theorem %s depends on non-allowed assumptions: %s" % (name, notallowed))
            elif name in thms:
                discharged += 1
                used_axioms.update(axs)
        self.cov["discharged"] = discharged
        self.cov["axioms_used"] = sorted(used_axioms)
        if self.thorough and not report["errors"]:
            okk, res = self.coqchk()
            if not okk:
                report["errors"].append("coqchk failed or reports non-allowed axioms: %s" % res)
        self.proof_report = report
        return (not report["errors"]) and discharged == len(thms), report

    def coqchk(self, timeout=1500):
        """Thorough tier: re-check the compiled closure of Properties/<prop> with the independent
        checker and record the axioms it reports (coqchk -o)."""
        rc, out = sh(["coqchk", "-o", "-silent", "-Q", str(COQ), LOGICAL, "%s.Properties.%s" % (LOGICAL, self.prop)],
                     timeout=timeout, cwd=COQ)
        m = re.search(r"\* Axioms:(.*?)\n\s*\n\* Constants/Inductives relying on type-in-type:(.*?)\n\s*\n"
                      r"\* Constants/Inductives relying on unsafe \(co\)fixpoints:(.*?)\n\s*\n"
                      r"\* Inductives whose positivity is assumed:(.*?)\n", out, re.S)
        res = {"rc": rc}
        if m:
            res["axioms"] = [x.strip() for x in m.group(1).strip().split("\n") if x.strip() and x.strip() != "<none>"]
            res["type_in_type"] = m.group(2).strip()
            res["unsafe_fix"] = m.group(3).strip()
            res["assumed_positivity"] = m.group(4).strip()
        else:
            res["tail"] = out[-1500:]
        self.notes["coqchk"] = res
        ok = rc == 0 and m is not None and all(res[k] == "<none>" for k in ("type_in_type", "unsafe_fix", "assumed_positivity"))
        if ok:
            allowed = {x.split(".")[-1] for x in ALLOWED_AXIOMS}
            ok = all(a.split(":")[0].strip().split(".")[-1] in allowed for a in res["axioms"])
        return ok, res

    def closure(self):
        """.v files (relative to coq/) in the dependency closure of Properties/<prop>.v."""
        deps = {}
        md = COQ / ".Makefile.d"
        if md.exists():
            for line in md.read_text().split("\n"):
                if ":" not in line:
                    continue
                lhs, rhs = line.split(":", 1)
                tg = [t for t in lhs.split() if t.endswith(".vo")]
                for t in tg:
                    deps.setdefault(t, set()).update(x for x in rhs.split() if x.endswith(".vo") and not x.startswith("/"))
        seen, todo = set(), ["Properties/%s.vo" % self.prop]
        while todo:
            t = todo.pop()
            if t in seen:
                continue
            seen.add(t)
            todo.extend(deps.get(t, ()))
        files = sorted(t[:-1] for t in seen if (COQ / t[:-1]).exists())
        return files or None

    @staticmethod
    def _parse_assumptions(out):
        blocks, cur, mode = [], None, None
        for line in out.split("\n"):
            if line.startswith("Closed under the global context"):
                if cur is not None:
                    blocks.append(cur)
                blocks.append(["Closed under the global context"])
                cur = None
            elif line.startswith("Axioms:") or line.startswith("Section Variables:"):
                if line.startswith("Axioms:") and cur is not None and mode == "sec":
                    mode = "ax"       # same block: section variables then axioms
                    continue
                if cur is not None:
                    blocks.append(cur)
                cur = []
                mode = "ax" if line.startswith("Axioms:") else "sec"
            elif cur is not None:
                m = re.match(r"^([A-Za-z_][A-Za-z0-9_'.]*)\s*:", line)
                if m:
                    cur.append(("SECTIONVAR " if mode == "sec" else "") + m.group(1))
        if cur is not None:
            blocks.append(cur)
        return blocks

    # -------------------------------------------------- model evaluation in Coq
    def coq_eval_failing(self, header, case_type, check_fn, cases, shard=300, timeout=600):
        """Evaluate ``check_fn : case_type -> bool`` (a Coq term) on every case (Coq term
        strings) with vm_compute, in shards compiled in parallel.  Returns the list of indices of
        failing cases."""
        d = self.scratch / "cases"
        d.mkdir(exist_ok=True)
        files = []
        for k in range(0, len(cases), shard):
            chunk = cases[k:k + shard]
            name = "cases_%s_%d" % (self.prop, k // shard)
            body = ["Require Import Coq.Lists.List Coq.NArith.NArith. Import ListNotations.", header,
                    "Definition the_cases : list (%s) := [\n%s\n]." % (case_type, ";\n".join(chunk)),
                    "Fixpoint failing_ (i : N) (l : list (%s)) : list N := match l with [] => [] "
                    "| c :: r => if (%s) c then failing_ (N.succ i) r else i :: failing_ (N.succ i) r end."
                    % (case_type, check_fn),
                    "Definition bad_ := Eval vm_compute in failing_ 0%N the_cases.",
                    'Goal True. idtac "@@BAD-BEGIN". Abort.', "Print bad_.", 'Goal True. idtac "@@BAD-END". Abort.']
            (d / (name + ".v")).write_text("\n".join(body) + "\n")
            files.append((k, d / (name + ".v")))
        failing = []
        procs = []
        maxp = int(os.environ.get("VERIF_JOBS", "4"))

        def reap(block_all=False):
            while procs and (block_all or len(procs) >= maxp):
                k, f, p, t_start = procs.pop(0)
                try:
                    out, _ = p.communicate(timeout=timeout)
                except subprocess.TimeoutExpired:
                    p.kill()
                    out = "[timeout]"
                if p.returncode != 0:
                    raise RuntimeError("coqc failed on %s:\n%s" % (f, out[-3000:]))
                m = re.search(r"@@BAD-BEGIN(.*)@@BAD-END", out, re.S)
                if not m:
                    raise RuntimeError("cannot parse coqc output of %s:\n%s" % (f, out[-3000:]))
                txt = m.group(1).split(":=", 1)[-1].rsplit(":", 1)[0]
                for num in re.findall(r"\d+", txt):
                    failing.append(k + int(num))
        for k, f in files:
            reap()
            p = subprocess.Popen(["coqc", "-Q", str(COQ), LOGICAL, "-w", "-notation-overridden,-deprecated,-ambiguous-paths",
                                  str(f)], cwd=d, stdout=subprocess.PIPE, stderr=subprocess.STDOUT, text=True)
            procs.append((k, f, p, time.time()))
        reap(block_all=True)
        return sorted(failing)

    def coq_eval_show(self, header, terms, timeout=300):
        """Evaluate a few Coq terms with vm_compute and return their printed form (for replays)."""
        d = self.scratch / "cases"
        d.mkdir(exist_ok=True)
        f = d / ("show_%s.v" % self.prop)
        body = ["Require Import Coq.Lists.List. Import ListNotations.", header, "Set Printing Width 200."]
        for i, t in enumerate(terms):
            body += ['Goal True. idtac "@@SHOW %d". Abort.' % i, "Eval vm_compute in (%s)." % t]
        body += ['Goal True. idtac "@@SHOW-END". Abort.']
        f.write_text("\n".join(body) + "\n")
        ok, out = self.coqc_file(f, timeout=timeout, cwd=d)
        if not ok:
            return ["<coqc failed: %s>" % out[-500:]] * len(terms)
        parts = re.split(r"@@SHOW(?:-END| \d+)\n?", out)
        return [p.strip() for p in parts[1:len(terms) + 1]]

    # ---------------------------------------------------- findings/violations
    def known_findings(self):
        if self._kf is None:
            p = VERIF / "props" / self.prop / "known_findings.json"
            self._kf = json.loads(p.read_text()) if p.exists() else []
        return [k for k in self._kf if k.get("property", self.prop) == self.prop]

    def finding(self, key, what, replay):
        """A concrete failure of the property on the implementation.  Listed+open in
        known_findings.json => KNOWN-FINDING line; otherwise a VIOLATION."""
        for k in self.known_findings():
            if k.get("key") == key and k.get("status") == "open":
                if key not in self.known_printed:
                    self.known_printed.append(key)
                    print("KNOWN-FINDING: property=%s %s [%s]" % (self.prop, k.get("what", what), key), flush=True)
                return False
        self.violation(dict(replay, key=key, what=what))
        return True

    def violation(self, replay, no_input=False):
        body = json.dumps(replay, sort_keys=True, indent=1, default=str)
        h = hashlib.sha1(body.encode()).hexdigest()[:10]
        path = VERIF / "replays" / ("%s-%s.json" % (self.prop, h))
        path.parent.mkdir(exist_ok=True)
        path.write_text(body + "\n")
        self.violations.append((str(path), no_input))
        print("VIOLATION property=%s replay=%s%s" % (self.prop, path, " no-failing-input-found" if no_input else ""),
              flush=True)

    # ---------------------------------------------------------------- evidence
    def finish(self):
        self.cov["trusted_base"] = self.cov["trusted_base"] or []
        ev = {"property_id": self.prop, "tier": self.tier, "seed": self.seed, "level": "proof",
              "coverage": self.cov, "assumptions": self.assumptions,
              "wall_s": round(time.time() - self.t0, 2), "violations": len(self.violations),
              "known_findings_reported": self.known_printed}
        if hasattr(self, "proof_report"):
            ev["coverage"]["theorems"] = self.proof_report.get("theorems", [])
            ev["coverage"]["print_assumptions"] = self.proof_report.get("assumptions", {})
        ev["coverage"].update(self.notes)
        if ev["coverage"]["distinct_nontrivial"] < 2 and ev["coverage"]["evaluations"] == 0:
            pass
        out = VERIF / "evidence" / (self.prop + ".json")
        out.parent.mkdir(exist_ok=True)
        out.write_text(json.dumps(ev, indent=1, sort_keys=True, default=str) + "\n")
        shutil.rmtree(self.scratch, ignore_errors=True)
        return 1 if self.violations else 0


BASE_TRUST = [
    "Coq 8.16.1 kernel (coqc; vm_compute used for witnesses/finite sweeps/case evaluation; native_compute not used)",
    "no axioms declared by the development (scan for Axiom/Parameter/Admitted/... on every run; Print Assumptions under every property theorem)",
    "correspondence harness (vlib/, props/<id>/check.py generators, canonicalisation and the cases.v printer) is trusted glue",
    "CPython 3.12, fparser 0.2.5 and sympy 1.14 as they run the implementation side",
]
