"""./check <ID> --tier quick|thorough [--seed N]   |   ./check --setup   |   ./check --all"""
import argparse
import importlib.util
import json
import os
import sys
import time
import traceback

from vlib import core


def load_check(prop):
    path = core.VERIF / "props" / prop / "check.py"
    spec = importlib.util.spec_from_file_location("props_%s_check" % prop, path)
    mod = importlib.util.module_from_spec(spec)
    spec.loader.exec_module(mod)
    return mod


def setup():
    """Build every .vo (tolerant: a property whose files do not build fails in its own check)."""
    t0 = time.time()
    for prop_dir in sorted((core.VERIF / "props").iterdir()):
        tr = prop_dir / "translate.py"
        if tr.exists():
            rc, out = core.sh([sys.executable, str(tr)], timeout=600, cwd=core.VERIF)
            print("[setup] translator %s rc=%d" % (prop_dir.name, rc))
            if rc != 0:
                print(out[-2000:])
    with core.BuildLock():
        core.refresh_makefile()
        rc, out = core.sh(["make", "-j%d" % core.NCPU, "-k"], cwd=core.COQ, timeout=7200)
    print(out[-3000:])
    bad = core.scan_forbidden()
    for b in bad:
        print("[setup] FORBIDDEN token %s:%d: %s" % b)
    print("[setup] coq build rc=%d in %.0fs" % (rc, time.time() - t0))
    # setup only warms the build cache; each check rebuilds what it needs and fails on its own.
    return 0


def main(argv):
    ap = argparse.ArgumentParser()
    ap.add_argument("prop", nargs="?")
    ap.add_argument("--tier", default=os.environ.get("VERIF_TIER", "quick"), choices=["quick", "thorough"])
    ap.add_argument("--seed", type=int, default=int(os.environ.get("VERIF_SEED", "0")))
    ap.add_argument("--setup", action="store_true")
    ap.add_argument("--replay")
    a = ap.parse_args(argv)
    if a.setup:
        return setup()
    if not a.prop:
        ap.error("property id required")
    ctx = core.Ctx(a.prop, a.tier, a.seed)
    try:
        mod = load_check(a.prop)
        if a.replay:
            return mod.replay(ctx, a.replay)
        mod.run(ctx)
    except Exception:
        tb = traceback.format_exc()
        print(tb, file=sys.stderr)
        # a harness failure means the property is no longer shown to hold
        ctx.violation({"property": a.prop, "harness_error": tb,
                       "broken": "check machinery raised before completing; see traceback"}, no_input=True)
    rc = ctx.finish()
    print("[%s] done tier=%s evaluations=%d distinct_nontrivial=%d obligations=%d discharged=%d violations=%d wall=%.1fs"
          % (a.prop, a.tier, ctx.cov["evaluations"], ctx.cov["distinct_nontrivial"], ctx.cov["obligations"],
             ctx.cov["discharged"], len(ctx.violations), time.time() - ctx.t0))
    return rc


if __name__ == "__main__":
    sys.exit(main(sys.argv[1:]))
