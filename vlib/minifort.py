"""MiniFortran glue shared by the semantic properties (trusted harness code, DESIGN 2.2/2.4).

* a Python mirror of coq/Fort/Syntax.v: expressions and statements as tuples
    expr: ("lit", z) | ("var", x) | ("idx", a, [e..]) | ("un", op, e) | ("bin", op, l, r) | ("intr", f, [e..])
    stmt: ("assign", x, [ix..], e) | ("if", c, [th], [el]) | ("do", x, lo, hi, st, [body])
          | ("exit",) | ("cycle",) | ("return",) | ("print", [e..]) | ("region", r, [body]) | ("dir", d, [body])
  with variable names as strings on the Python side and numbered (Names) for Coq;
* `from_psyir`  : fail-closed serialiser PSyIR -> tuples (raises OutOfSubset);
* `to_coq`      : tuples -> Gallina term of Fort.Syntax;
* `to_fortran`  : tuples -> free-form Fortran text (so generated programs can be fed to PSyclone/gfortran);
* `interp`      : an interpreter mirroring coq/Fort/Sem.v exactly (store, trace, control), used for the
                  failing-input search; `cross_validate` compares it with the Coq `exec` via vm_compute.
"""
from vlib import core


class OutOfSubset(Exception):
    pass


class FaultExc(Exception):
    pass


BINOPS = {"ADD": "Add", "SUB": "Sub", "MUL": "Mul", "DIV": "Div", "POW": "Pow", "EQ": "Eq", "NE": "Ne",
          "LT": "Lt", "LE": "Le", "GT": "Gt", "GE": "Ge", "AND": "And", "OR": "Or", "EQV": "Eq", "NEQV": "Ne"}
INTRS = {"MIN": "IMin", "MAX": "IMax", "MOD": "IMod", "ABS": "IAbs", "SIGN": "ISign", "LBOUND": "ILbound",
         "UBOUND": "IUbound", "SIZE": "ISize"}
F_BIN = {"Add": "+", "Sub": "-", "Mul": "*", "Div": "/", "Pow": "**", "Eq": "==", "Ne": "/=", "Lt": "<",
         "Le": "<=", "Gt": ">", "Ge": ">=", "And": ".and.", "Or": ".or."}
F_INTR = {v: k for k, v in INTRS.items()}


# ------------------------------------------------------------------ PSyIR -> tuples
def _lit(node):
    from psyclone.psyir.symbols import ScalarType
    it = node.datatype.intrinsic
    v = node.value
    if it == ScalarType.Intrinsic.INTEGER:
        return ("lit", int(v))
    if it == ScalarType.Intrinsic.BOOLEAN:
        return ("lit", 1 if v.lower() == "true" else 0)
    if it == ScalarType.Intrinsic.REAL:
        f = float(v.lower().replace("d", "e"))
        if f != int(f):
            raise OutOfSubset("non-integral real literal " + v)
        return ("lit", int(f))
    raise OutOfSubset("literal type %s" % it)


def expr_from_psyir(node):
    from psyclone.psyir import nodes as N
    if isinstance(node, N.Literal):
        return _lit(node)
    if isinstance(node, N.ArrayReference):
        ix = []
        for c in node.indices:
            if isinstance(c, N.Range):
                raise OutOfSubset("array range")
            ix.append(expr_from_psyir(c))
        return ("idx", node.name.lower(), ix)
    if isinstance(node, N.Reference) and type(node) is N.Reference:
        return ("var", node.name.lower())
    if isinstance(node, N.UnaryOperation):
        o = node.operator.name
        e = expr_from_psyir(node.children[0])
        if o == "MINUS":
            return ("un", "Neg", e)
        if o == "PLUS":
            return e
        if o == "NOT":
            return ("un", "Not", e)
    if isinstance(node, N.BinaryOperation):
        o = node.operator.name
        if o == "REM":
            return ("intr", "IMod", [expr_from_psyir(c) for c in node.children])
        if o in BINOPS:
            return ("bin", BINOPS[o], expr_from_psyir(node.children[0]), expr_from_psyir(node.children[1]))
    if isinstance(node, N.IntrinsicCall):
        nm = node.intrinsic.name
        if nm in INTRS and not any(node.argument_names):
            args = [expr_from_psyir(c) if not (i == 0 and nm in ("LBOUND", "UBOUND", "SIZE")) else
                    ("var", c.name.lower()) for i, c in enumerate(node.arguments)]
            return ("intr", INTRS[nm], args)
    raise OutOfSubset("expression node %s" % type(node).__name__)


def stmts_from_psyir(nodes):
    out = []
    for n in nodes:
        out.append(stmt_from_psyir(n))
    return out


def stmt_from_psyir(n):
    from psyclone.psyir import nodes as N
    if isinstance(n, N.Assignment):
        lhs = n.lhs
        if isinstance(lhs, N.ArrayReference):
            e = expr_from_psyir(lhs)
            return ("assign", e[1], e[2], expr_from_psyir(n.rhs))
        if type(lhs) is N.Reference:
            return ("assign", lhs.name.lower(), [], expr_from_psyir(n.rhs))
        raise OutOfSubset("lhs %s" % type(lhs).__name__)
    if isinstance(n, N.IfBlock):
        return ("if", expr_from_psyir(n.condition), stmts_from_psyir(n.if_body.children),
                stmts_from_psyir(n.else_body.children) if n.else_body else [])
    if isinstance(n, N.Loop) and type(n).__name__ in ("Loop",):
        return ("do", n.variable.name.lower(), expr_from_psyir(n.start_expr), expr_from_psyir(n.stop_expr),
                expr_from_psyir(n.step_expr), stmts_from_psyir(n.loop_body.children))
    if isinstance(n, N.Return):
        return ("return",)
    if isinstance(n, N.CodeBlock):
        txt = " ".join(str(a) for a in n.get_ast_nodes).strip().upper()
        if txt == "EXIT":
            return ("exit",)
        if txt == "CYCLE":
            return ("cycle",)
        raise OutOfSubset("codeblock " + txt[:40])
    if isinstance(n, N.PSyDataNode):
        return ("region", id(n) % 100000, stmts_from_psyir(n.psy_data_body.children))
    if isinstance(n, N.Directive):
        body = n.dir_body.children if hasattr(n, "dir_body") else []
        return ("dir", 0, stmts_from_psyir(body))
    raise OutOfSubset("statement node %s" % type(n).__name__)


def from_psyir(routine):
    """Routine -> list of statements (tuples)."""
    return stmts_from_psyir(routine.children)


# ------------------------------------------------------------------ names
class Names:
    """Stable numbering of variable names for the Coq side."""

    def __init__(self, names=()):
        self.ids = {}
        for n in names:
            self.get(n)

    def get(self, n):
        if n not in self.ids:
            self.ids[n] = len(self.ids)
        return self.ids[n]

    def collect(self, stmts):
        for n in sorted(all_names(stmts)):
            self.get(n)
        return self


def expr_names(e, acc):
    k = e[0]
    if k == "var":
        acc.add(e[1])
    elif k == "idx":
        acc.add(e[1])
        for x in e[2]:
            expr_names(x, acc)
    elif k == "un":
        expr_names(e[2], acc)
    elif k == "bin":
        expr_names(e[2], acc)
        expr_names(e[3], acc)
    elif k == "intr":
        for x in e[2]:
            expr_names(x, acc)
    return acc


def all_names(stmts, acc=None):
    acc = set() if acc is None else acc
    for s in stmts:
        k = s[0]
        if k == "assign":
            acc.add(s[1])
            for x in s[2]:
                expr_names(x, acc)
            expr_names(s[3], acc)
        elif k == "if":
            expr_names(s[1], acc)
            all_names(s[2], acc)
            all_names(s[3], acc)
        elif k == "do":
            acc.add(s[1])
            for x in s[2:5]:
                expr_names(x, acc)
            all_names(s[5], acc)
        elif k == "print":
            for x in s[1]:
                expr_names(x, acc)
        elif k in ("region", "dir"):
            all_names(s[2], acc)
    return acc


# ------------------------------------------------------------------ tuples -> Coq
def expr_to_coq(e, nm):
    k = e[0]
    if k == "lit":
        return "(ELit (%d))" % e[1]
    if k == "var":
        return "(EVar %d%%nat)" % nm.get(e[1])
    if k == "idx":
        return "(EIdx %d%%nat [%s])" % (nm.get(e[1]), "; ".join(expr_to_coq(x, nm) for x in e[2]))
    if k == "un":
        return "(EUn %s %s)" % (e[1], expr_to_coq(e[2], nm))
    if k == "bin":
        return "(EBin %s %s %s)" % (e[1], expr_to_coq(e[2], nm), expr_to_coq(e[3], nm))
    if k == "intr":
        return "(EIntr %s [%s])" % (e[1], "; ".join(expr_to_coq(x, nm) for x in e[2]))
    raise ValueError(e)


def stmts_to_coq(ss, nm):
    return "[" + "; ".join(stmt_to_coq(s, nm) for s in ss) + "]"


def stmt_to_coq(s, nm):
    k = s[0]
    if k == "assign":
        return "(SAssign %d%%nat [%s] %s)" % (nm.get(s[1]), "; ".join(expr_to_coq(x, nm) for x in s[2]),
                                              expr_to_coq(s[3], nm))
    if k == "if":
        return "(SIf %s %s %s)" % (expr_to_coq(s[1], nm), stmts_to_coq(s[2], nm), stmts_to_coq(s[3], nm))
    if k == "do":
        return "(SDo %d%%nat %s %s %s %s)" % (nm.get(s[1]), expr_to_coq(s[2], nm), expr_to_coq(s[3], nm),
                                             expr_to_coq(s[4], nm), stmts_to_coq(s[5], nm))
    if k == "exit":
        return "SExit"
    if k == "cycle":
        return "SCycle"
    if k == "return":
        return "SReturn"
    if k == "print":
        return "(SPrint [%s])" % "; ".join(expr_to_coq(x, nm) for x in s[1])
    if k == "region":
        return "(SRegion %d%%nat %s)" % (s[1], stmts_to_coq(s[2], nm))
    if k == "dir":
        return "(SDir %d%%nat %s)" % (s[1], stmts_to_coq(s[2], nm))
    raise ValueError(s)


def store_to_coq(vals, bnds, nm):
    """vals: {(name, (i,..)): z}; bnds: {name: [(lb,ub),..]}  ->  Coq term `store_of [...] [...]`."""
    v = "; ".join("((%d%%nat, [%s]), (%d))" % (nm.get(k[0]), "; ".join("(%d)" % i for i in k[1]), z)
                  for k, z in sorted(vals.items()))
    b = "; ".join("(%d%%nat, [%s])" % (nm.get(a), "; ".join("((%d), (%d))" % p for p in bs))
                  for a, bs in sorted(bnds.items()))
    return "(store_of [%s] [%s])" % (v, b)


# ------------------------------------------------------------------ tuples -> Fortran
def expr_to_fortran(e):
    k = e[0]
    if k == "lit":
        return str(e[1]) if e[1] >= 0 else "(%d)" % e[1]
    if k == "var":
        return e[1]
    if k == "idx":
        return "%s(%s)" % (e[1], ", ".join(expr_to_fortran(x) for x in e[2]))
    if k == "un":
        return "(-%s)" % expr_to_fortran(e[2]) if e[1] == "Neg" else "(.not. %s)" % expr_to_fortran(e[2])
    if k == "bin":
        return "(%s %s %s)" % (expr_to_fortran(e[2]), F_BIN[e[1]], expr_to_fortran(e[3]))
    if k == "intr":
        return "%s(%s)" % (F_INTR[e[1]], ", ".join(expr_to_fortran(x) for x in e[2]))
    raise ValueError(e)


def stmts_to_fortran(ss, ind="  "):
    out = []
    for s in ss:
        k = s[0]
        if k == "assign":
            lhs = s[1] if not s[2] else "%s(%s)" % (s[1], ", ".join(expr_to_fortran(x) for x in s[2]))
            out.append("%s%s = %s" % (ind, lhs, expr_to_fortran(s[3])))
        elif k == "if":
            out.append("%sif (%s) then" % (ind, expr_to_fortran(s[1])))
            out += stmts_to_fortran(s[2], ind + "  ")
            if s[3]:
                out.append(ind + "else")
                out += stmts_to_fortran(s[3], ind + "  ")
            out.append(ind + "end if")
        elif k == "do":
            out.append("%sdo %s = %s, %s, %s" % (ind, s[1], expr_to_fortran(s[2]), expr_to_fortran(s[3]),
                                                expr_to_fortran(s[4])))
            out += stmts_to_fortran(s[5], ind + "  ")
            out.append(ind + "end do")
        elif k in ("exit", "cycle", "return"):
            out.append(ind + k)
        elif k == "print":
            out.append("%sprint *, %s" % (ind, ", ".join(expr_to_fortran(x) for x in s[1])))
        elif k in ("region", "dir"):
            out += stmts_to_fortran(s[2], ind)
        else:
            raise ValueError(s)
    return out


def to_fortran(name, stmts, decls, kind="subroutine"):
    """decls: list of (var, 'integer'|'real'|'logical', [(lb,ub)..]) -> text of a subroutine/program."""
    lines = ["%s %s()" % (kind, name) if kind == "subroutine" else "program %s" % name]
    for v, ty, bs in decls:
        if bs:
            lines.append("  %s, dimension(%s) :: %s" % (ty, ", ".join("%d:%d" % b for b in bs), v))
        else:
            lines.append("  %s :: %s" % (ty, v))
    lines += stmts_to_fortran(stmts)
    lines.append("end %s %s" % (kind, name))
    return "\n".join(lines) + "\n"


# ------------------------------------------------------------------ interpreter (mirror of Sem.v)
def _quot(a, b):
    q = abs(a) // abs(b)
    return q if (a >= 0) == (b >= 0) else -q


def _rem(a, b):
    return a - b * _quot(a, b)


class Store:
    def __init__(self, vals=None, bnds=None):
        self.vals = dict(vals or {})
        self.bnds = dict(bnds or {})

    def get(self, loc):
        return self.vals.get(loc, 0)

    def copy(self):
        return Store(self.vals, self.bnds)


def ev(s, e, reads):
    """evaluate, appending read locations to `reads` in the order of Sem.ereads; raises FaultExc."""
    k = e[0]
    if k == "lit":
        return e[1]
    if k == "var":
        reads.append((e[1], ()))
        return s.get((e[1], ()))
    if k == "idx":
        vs = tuple(ev(s, x, reads) for x in e[2])
        reads.append((e[1], vs))
        return s.get((e[1], vs))
    if k == "un":
        a = ev(s, e[2], reads)
        return -a if e[1] == "Neg" else (1 if a == 0 else 0)
    if k == "bin":
        a = ev(s, e[2], reads)
        b = ev(s, e[3], reads)
        o = e[1]
        if o == "Add":
            return a + b
        if o == "Sub":
            return a - b
        if o == "Mul":
            return a * b
        if o == "Div":
            if b == 0:
                raise FaultExc("div0")
            return _quot(a, b)
        if o == "Pow":
            if b < 0:
                raise FaultExc("negexp")
            return a ** b
        if o == "Eq":
            return int(a == b)
        if o == "Ne":
            return int(a != b)
        if o == "Lt":
            return int(a < b)
        if o == "Le":
            return int(a <= b)
        if o == "Gt":
            return int(a > b)
        if o == "Ge":
            return int(a >= b)
        if o == "And":
            return int(a != 0 and b != 0)
        if o == "Or":
            return int(a != 0 or b != 0)
    if k == "intr":
        f = e[1]
        if f in ("ILbound", "IUbound", "ISize"):
            if not e[2] or e[2][0][0] != "var":
                raise FaultExc("inquiry")
            vs = [ev(s, x, reads) for x in e[2][1:]]
            if len(vs) != 1 or vs[0] < 1:
                raise FaultExc("inquiry")
            bs = s.bnds.get(e[2][0][1], [])
            if vs[0] - 1 >= len(bs):
                raise FaultExc("inquiry")
            lb, ub = bs[vs[0] - 1]
            return lb if f == "ILbound" else ub if f == "IUbound" else max(0, ub - lb + 1)
        vs = [ev(s, x, reads) for x in e[2]]
        if f == "IMin" and vs:
            return min(vs)
        if f == "IMax" and vs:
            return max(vs)
        if f == "IMod" and len(vs) == 2:
            if vs[1] == 0:
                raise FaultExc("mod0")
            return _rem(vs[0], vs[1])
        if f == "IAbs" and len(vs) == 1:
            return abs(vs[0])
        if f == "ISign" and len(vs) == 2:
            return abs(vs[0]) if vs[1] >= 0 else -abs(vs[0])
        raise FaultExc("intr")
    raise ValueError(e)


class OutOfFuel(Exception):
    pass


def run(stmts, s, tr, fuel=[200000]):
    """execute statements on Store s in place, appending events to tr; returns control state.
    Events: ("R", loc) ("W", loc) ("O", (vals)) ("E", r) ("L", r)."""
    for st in stmts:
        fuel[0] -= 1
        if fuel[0] <= 0:
            raise OutOfFuel()
        k = st[0]
        if k == "assign":
            r_ix, r_e = [], []
            vs = tuple(ev(s, x, r_ix) for x in st[2])
            v = ev(s, st[3], r_e)
            tr += [("R", l) for l in r_e + r_ix]
            s.vals[(st[1], vs)] = v
            tr.append(("W", (st[1], vs)))
        elif k == "if":
            r = []
            c = ev(s, st[1], r)
            tr += [("R", l) for l in r]
            ctl = run(st[2] if c != 0 else st[3], s, tr, fuel)
            if ctl != "N":
                return ctl
        elif k == "do":
            r = []
            lo = ev(s, st[2], r)
            hi = ev(s, st[3], r)
            stp = ev(s, st[4], r)
            if stp == 0:
                raise FaultExc("zerostep")
            tr += [("R", l) for l in r]
            n = max(0, _quot(hi - lo + stp, stp))
            x = (st[1], ())
            kk = 0
            done = False
            for kk in range(n):
                s.vals[x] = lo + kk * stp
                tr.append(("W", x))
                ctl = run(st[5], s, tr, fuel)
                if ctl == "X":
                    done = True
                    break
                if ctl == "R":
                    return "R"
            if not done:
                s.vals[x] = lo + n * stp
                tr.append(("W", x))
        elif k == "exit":
            return "X"
        elif k == "cycle":
            return "C"
        elif k == "return":
            return "R"
        elif k == "print":
            r = []
            vs = tuple(ev(s, x, r) for x in st[1])
            tr += [("R", l) for l in r]
            tr.append(("O", vs))
        elif k == "region":
            tr.append(("E", st[1]))
            ctl = run(st[2], s, tr, fuel)
            if ctl != "N":
                return ctl
            tr.append(("L", st[1]))
        elif k == "dir":
            ctl = run(st[2], s, tr, fuel)
            if ctl != "N":
                return ctl
        else:
            raise ValueError(st)
    return "N"


def interp(stmts, vals=None, bnds=None, fuel=200000):
    """-> ("ok", Store, trace, ctl) | ("fault", reason) | ("fuel",)"""
    s = Store(vals, bnds)
    tr = []
    try:
        ctl = run(stmts, s, tr, [fuel])
    except FaultExc as e:
        return ("fault", str(e))
    except OutOfFuel:
        return ("fuel",)
    return ("ok", s, tr, ctl)


CTL_COQ = {"N": "CNormal", "X": "CExit", "C": "CCycle", "R": "CReturn"}


def trace_to_coq(tr, nm):
    out = []
    for k, v in tr:
        if k in ("R", "W"):
            out.append("%s (%d%%nat, [%s])" % ("Rd" if k == "R" else "Wr", nm.get(v[0]),
                                                "; ".join("(%d)" % i for i in v[1])))
        elif k == "O":
            out.append("Out [%s]" % "; ".join("(%d)" % i for i in v))
        else:
            out.append("%s %d%%nat" % ("Enter" if k == "E" else "Leave", v))
    return "[" + "; ".join(out) + "]"


XV_HEADER = """From Coq Require Import List ZArith Bool. Import ListNotations.
From PV Require Import Fort.Syntax Fort.Sem Base.Harness.
Open Scope Z_scope.
Definition ev_eqb (a b : event) : bool :=
  match a, b with
  | Rd x, Rd y | Wr x, Wr y => loc_eqb x y
  | Out x, Out y => list_beq Z.eqb x y
  | Enter x, Enter y | Leave x, Leave y => Nat.eqb x y
  | _, _ => false end.
Definition ctl_eqb (a b : ctl) : bool :=
  match a, b with CNormal, CNormal | CExit, CExit | CCycle, CCycle | CReturn, CReturn => true | _, _ => false end.
(* case: program, initial store, expected: None = fault, Some (trace, ctl, final values of listed locations) *)
Definition xv_case := (list stmt * store * option (list event * ctl * list (loc * Z)))%type.
Definition xv_check (c : xv_case) : bool :=
  match c with
  | (p, s, exp) =>
    match exec 5000 p s, exp with
    | Ok s' tr c', Some (tr0, c0, fin) =>
        list_beq ev_eqb tr tr0 && ctl_eqb c' c0 && forallb (fun lv => Z.eqb (val s' (fst lv)) (snd lv)) fin
    | Fault, None => true
    | _, _ => false
    end
  end.
"""


def cross_validate(ctx, progs):
    """progs: list of (stmts, vals, bnds).  Runs `interp` and the Coq `exec`; returns indices where
    they differ (trace, control state, final values of every location present in the final store)."""
    cases = []
    for stmts, vals, bnds in progs:
        nm = Names().collect(stmts)
        for k in vals:
            nm.get(k[0])
        for a in bnds:
            nm.get(a)
        r = interp(stmts, vals, bnds)
        if r[0] == "fuel":
            continue
        if r[0] == "fault":
            exp = "None"
        else:
            _, s, tr, ctl = r
            fin = "; ".join("((%d%%nat, [%s]), (%d))" % (nm.get(k[0]), "; ".join("(%d)" % i for i in k[1]), z)
                            for k, z in sorted(s.vals.items()))
            exp = "(Some (%s, %s, [%s]))" % (trace_to_coq(tr, nm), CTL_COQ[ctl], fin)
        cases.append("(%s, %s, %s)" % (stmts_to_coq(stmts, nm), store_to_coq(vals, bnds, nm), exp))
    return ctx.coq_eval_failing(XV_HEADER, "xv_case", "xv_check", cases, shard=150), len(cases)
